"""C18 - a dump that fails validation leaves the destination untouched.

All seven formats.  Run: history -> dump(path) (good copy G on SimFS; or - sub-case - no file) -> valid mutation
-> F1: EVERY validator invocation of one dump raises in turn (counting pass gives N; all k < N, capped at 64
sampled ones in the quick tier) -> destination must be G byte for byte (or still absent) -> fault removed, dump
succeeds; then F2: real invalid values at PRNG-chosen nested locators of the C06 table, same check; then heal
and restart.
"""
from ..kits import KITS, FORMATS
from ..pools import pick

ID = "C18"
LEVEL = "fault_enumeration"
RUNS = {"quick": 1400, "thorough": 35000}
REQUIRED_FAULTS = ["F1.validator_raises", "F2.invalid_value_dump"]
MACHINES = FORMATS


def generate(rng, tier, idx):
    kit = KITS[FORMATS[idx % len(FORMATS)]]
    K = kit.content(rng, tier)
    ops = kit.build(K, rng)
    path = kit.path
    have_good = rng.random() < 0.75
    if have_good:
        d = kit.dump_op(K, rng)
        d.pop("to", None)
        ops.append(d)
        down = {"M-CI": {"op": "ci_downgrade", "version": pick(rng, ["1.1", "1.0", "0.3"])},
                "M-IM": {"op": "im_downgrade", "version": pick(rng, ["1.0", "1.1"])},
                "M-RP": {"op": "rp_downgrade", "version": pick(rng, ["0.3", "1.0", "1.1"])},
                "M-TI": {"op": "ti_downgrade", "version": pick(rng, ["1.1", "1.0", "0.3"])}}.get(kit.machine)
        if down and rng.random() < 0.3:
            # the good copy at the destination was written by an OLDER release of the software (a compose being re-generated
            # in place after an upgrade): it is the last good copy all the same
            ops.append(dict(down, path=path))
        if rng.random() < 0.4:
            # the object whose later dumps are refused was LOADED from the good copy (not built through the API)
            ops.append({"op": "restart", "path": path, "via": pick(rng, ["path", "handle", "loads"]), "offset": rng.randint(0, 500)})
        ops.append(kit.mutation(K, rng))
        if rng.random() < 0.2:
            ops.append({"op": "fs_alias", "path": path, "how": pick(rng, ["symlink", "hardlink"])})
    enum = {"op": "c18_enum", "path": path, "cap": 64 if tier == "quick" else None}
    mv = kit.dump_op(K, rng, main_variant="random").get("main_variant")     # TreeInfo.dump has its own main_variant path
    if mv is not None:
        enum["main_variant"] = mv
    ops.append(enum)
    sites = kit.sites(K)
    # type-confusion values (a set / tuple / bytes where a list / text is documented) are the ones most likely to slip past
    # a shallow check and blow up late: half of the picks are biased towards them
    CONTAINER_FIELDS = ("additional_variants", "checksums", "arches", "disc_numbers", "platforms")
    confused = [x for x in sites if isinstance(x.get("bad"), dict) and len(x["bad"]) == 1 and list(x["bad"].keys())[0] in ("__set__", "__tuple__", "__bytes__")
                and x.get("field") in CONTAINER_FIELDS]
    for _ in range(rng.randint(6, 12) if tier == "quick" else rng.randint(20, 40)):
        site = pick(rng, confused) if confused and rng.random() < 0.5 else pick(rng, sites)
        p, h = kit.poison(site)
        ops.append(kit.mutation(K, rng))
        ops.append(p)
        d = kit.dump_op(K, rng, main_variant="random")
        if rng.random() < 0.2 and d.get("to") != "handle":
            # the destination is named by an os.PathLike (pathlib): whatever the library makes of it, the refused object
            # must not cost the good copy (only asked of dumps the model calls invalid - see op_dump)
            d["dest"] = "pathlike"
        ops.append(d)
        ops.append(h)
        ops.append(kit.dump_op(K, rng, main_variant="random"))
    ops.append({"op": "restart", "path": path, "via": pick(rng, ["path", "handle", "loads"]), "offset": rng.randint(0, 500)})
    return {"machine": kit.machine, "cfg": kit.cfg(rng), "ops": ops}
