"""Content pools.  Small on purpose, so that collisions and aliasing happen."""

ARCHES = ["x86_64", "aarch64", "ppc64le", "s390x", "i386", "armhfp"]
ARCHES_BAD = ["src", "nosrc", "", "x86", "X86_64", "sparc65", None, 5, "SRC", "src ", "x86_64 "]

# productmd.common.RPM_ARCHES as documented at the pinned commit (61 names; src and nosrc are the source ones)
RPM_ARCHES_DOC = ['aarch64', 'alpha', 'alphaev4', 'alphaev45', 'alphaev5', 'alphaev56', 'alphaev6', 'alphaev67', 'alphaev68', 'alphaev7',
                  'alphapca56', 'amd64', 'arm64', 'armhfp', 'armv5tejl', 'armv5tel', 'armv5tl', 'armv6hl', 'armv6l', 'armv7hl', 'armv7hnl',
                  'armv7l', 'armv8hl', 'armv8l', 'athlon', 'geode', 'i386', 'i486', 'i586', 'i686', 'ia32e', 'ia64', 'loongarch64', 'mips',
                  'mips64', 'mips64el', 'mipsel', 'noarch', 'nosrc', 'ppc', 'ppc64', 'ppc64iseries', 'ppc64le', 'ppc64p7', 'ppc64pseries',
                  'riscv128', 'riscv32', 'riscv64', 's390', 's390x', 'sh3', 'sh4', 'sh4a', 'sparc', 'sparc64', 'sparc64v', 'sparcv8',
                  'sparcv9', 'sparcv9v', 'src', 'x86_64']

RELEASE_TYPES = ["fast", "ga", "updates", "updates-testing", "eus", "aus", "els", "tus", "e4s"]
COMPOSE_TYPES = ["test", "ci", "nightly", "production", "development"]
LABEL_NAMES = ["EA", "DevelPhaseExit", "InternalAlpha", "Alpha", "InternalSnapshot", "Beta", "Snapshot",
               "RC", "Update", "SecurityFix"]
CI_VARIANT_TYPES = ["variant", "optional", "addon", "layered-product"]
TI_VARIANT_TYPES = ["variant", "optional", "addon"]

CI_PATH_CATS = ["os_tree", "packages", "repository", "isos", "images", "jigdos",
                "source_tree", "source_packages", "source_repository", "source_isos", "source_jigdos",
                "debug_tree", "debug_packages", "debug_repository"]
TI_PATH_KINDS = ["packages", "repository", "source_packages", "source_repository",
                 "debug_packages", "debug_repository", "identity"]

NAMES = ["Fedora", "Red Hat Enterprise Linux", "Spacewalk", "Ünïcode Linux", "A" * 40,
         "7Server", "x-1.0-ga", "release", "Tools", "Fedora Server",
         "Fedora-\udcff-Live",      # a lone surrogate (os.fsdecode of a non-UTF-8 file name): a str like any other
         'quo"ted', "back\\slash", "tab\tchar", "null", "0", "  padded  ", "snow \u2603 man", "a/b:c=d", "{}", "[x]"]
SHORTS = ["F", "RHEL", "sw", "rhel-ha", "Fedora", "x1", "CentOS"]
VERSIONS_NUM = ["20", "7.0", "7.1", "10.0.1", "2.2", "5", "6.10", "20150522"]
VERSIONS_FREE = ["Rawhide", "rawhide", "Bikeshed", "eln"]
VERSIONS_BAD = ["", "1.", "1..2", "1a", "7.x", ".5"]

VARIANT_IDS = ["Server", "Client", "Workstation", "optional", "HighAvailability", "Tools", "RT", "A", "B1", "x9",
               "ServerRT", "AB", "B", "Clients"]
VARIANT_IDS_BAD = ["Ser-ver", "", "a b", "x_y", "Sérver"]

IMAGE_TYPE_FORMAT = {
    'appx': ['appx'], 'boot': ['iso'], 'cd': ['iso'], 'docker': ['tar.gz', 'tar.xz'], 'dvd': ['iso'],
    'dvd-debuginfo': ['iso'], 'dvd-ostree': ['iso'], 'dvd-ostree-osbuild': ['iso'], 'ec2': [], 'kvm': [],
    'live': [], 'live-osbuild': ['iso'], 'liveimg-squashfs': ['liveimg.squashfs'], 'netinst': ['iso'],
    'ociarchive': ['ociarchive'], 'p2v': [], 'qcow': ['qcow'], 'qcow2': ['qcow2'], 'raw': ['raw'],
    'raw-xz': ['raw.xz'], 'rescue': [], 'rhevm-ova': ['rhevm.ova'], 'tar-gz': ['tar.gz'],
    'vagrant-hyperv': ['vagrant-hyperv.box'], 'vagrant-libvirt': ['vagrant-libvirt.box'],
    'vagrant-virtualbox': ['vagrant-virtualbox.box'], 'vagrant-vmware-fusion': ['vagrant-vmware-fusion.box'],
    'vdi': ['vdi'], 'vmdk': ['vmdk'], 'vpc': ['vhd'], 'vhd-compressed': ['vhd.gz', 'vhd.xz'],
    'vsphere-ova': ['vsphere.ova'],
    'fex': ['erofs.xz', 'erofs.gz', 'erofs', 'squashfs.xz', 'squashfs.gz', 'squashfs'],
}
IMAGE_TYPES = sorted(IMAGE_TYPE_FORMAT)
IMAGE_FORMATS = sorted(set(f for fs in IMAGE_TYPE_FORMAT.values() for f in fs))

CHECKSUM_TYPES = ["md5", "sha1", "sha256", "sha512"]
HEX = "0123456789abcdef"


def hexstr(rng, n):
    return "".join(rng.choice(HEX) for _ in range(n))


def pick(rng, seq):
    return seq[rng.randrange(len(seq))]


def subset(rng, seq, lo=0, hi=None):
    hi = len(seq) if hi is None else min(hi, len(seq))
    k = rng.randint(lo, hi)
    return rng.sample(list(seq), k)


LABELS_BAD = ["GA", "Beta", "Beta-1", "RC-1", "RC-1.0.1", "beta-1.0", 5, "RC-1.a", "RC-1-1.0", "RC--1.0", "Beta-x-1.0", "RC-1.0-2.0",
              "Alpha-Beta-1.0", "RC-1.0 ", " RC-1.0", "RC_1.0", "XRC-1.0", "RC-1.", "RC-.5", "RC-1,0"]


def foreign_arches(parent_arches, own=()):
    """architectures a child of a parent with `parent_arches` must not have: an unrelated one, and names that CONTAIN or ARE
    CONTAINED IN one of the parent's (ppc64 / ppc64le, s390 / s390x)"""
    out = [a for a in ARCHES if a not in parent_arches][:1]
    # ...and the source pseudo-architecture: look-ups treat it specially, the subset rule does not
    out += [a for a in ("src",) if a not in parent_arches and a not in own]
    for a in parent_arches:
        for cand in (a[:-1], a[:-2], a + "le", a + "x", a.upper(), a + " "):
            if cand and cand not in parent_arches and cand not in own and cand not in out:
                out.append(cand)
    return out


# integers a double cannot hold exactly, beyond 2**63 / 2**64, and the first two-digit / three-digit numbers
BIG_INTS = [2 ** 53 + 1, 2 ** 60 + 12345, 2 ** 63 + 7, 2 ** 64 + 1, 10 ** 20 + 3]


def anyint(rng, usual, big=0.12):
    return pick(rng, BIG_INTS) if rng.random() < big else rng.choice(usual)


def date8(rng):
    if rng.random() < 0.1:
        return rng.choice(["00000000", "99999999", "20241331", "10000101"])     # "any 8-digit date"
    return "%04d%02d%02d" % (rng.choice([1999, 2015, 2024, 2030]), rng.randint(1, 12), rng.randint(1, 28))


def release(rng, layered=None, free_version=0.2):
    v = pick(rng, VERSIONS_FREE) if rng.random() < free_version else pick(rng, VERSIONS_NUM)
    return {"name": pick(rng, NAMES), "short": pick(rng, SHORTS), "version": v, "type": pick(rng, RELEASE_TYPES),
            "is_layered": (rng.random() < 0.3) if layered is None else layered, "internal": rng.random() < 0.3}


def base_product(rng):
    return {"name": pick(rng, NAMES), "short": pick(rng, SHORTS), "version": pick(rng, VERSIONS_NUM + VERSIONS_FREE),
            "type": pick(rng, RELEASE_TYPES)}


_SUFFIX = {"production": "", "ci": ".ci", "nightly": ".n", "test": ".t", "development": ".d"}


def compose(rng, rel=None):
    rel = rel or {"short": "F", "version": "20"}
    ctype = pick(rng, COMPOSE_TYPES)
    date = date8(rng)
    respin = rng.choice([0, 1, 2, 10, 99999999])
    cid = "%s-%s-%s%s.%d" % (rel["short"], rel["version"], date, _SUFFIX[ctype], respin)
    if ctype in ("nightly", "test") and rng.random() < 0.15:
        # the spelled-out type of old compose ids (RHEL-7.0-20131127.nightly.2)
        cid = "%s-%s-%s.%s.%d" % (rel["short"], rel["version"], date, ctype, respin)
    elif rng.random() < 0.12:
        # id and respin / type are independent fields: the id only has to look like an id
        cid = "%s-%s-%s%s.%d" % (rel["short"], rel["version"], date, pick(rng, list(_SUFFIX.values())), respin + pick(rng, [1, 2, 7]))
    label = None
    final = False
    if rng.random() < 0.5:
        label = "%s-%d.%d" % (pick(rng, LABEL_NAMES), rng.randint(0, 12), rng.randint(0, 30))
        final = rng.random() < 0.5
    elif rng.random() < 0.2:
        final = True          # 'final' without a label: not stored (documented normalisation)
    return {"id": cid, "type": ctype, "date": date, "respin": respin, "label": label, "final": final}


# values thrown at EVERY field locator in addition to the field-specific complements; the reference model's
# validity predicate decides for each whether the object is still valid, invalid or unspecified
GENERIC_BAD = [None, "", 0, 1, 0.0, 1.5, [], {}, "x", True, False, ["a"], {"__bytes__": "abc"}, {"__bytes__": ""}, {"__set__": ["Server"]}, {"__tuple__": ["Server"]},
               {"__float__": "inf"}, {"__float__": "nan"}]


def with_generic(bads):
    import json
    out, seen = [], set()
    for b in list(bads) + GENERIC_BAD:
        k = json.dumps(b, sort_keys=True) + type(b).__name__
        if k not in seen:
            seen.add(k)
            out.append(b)
    return out
