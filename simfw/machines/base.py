"""FormatMachine: the part of a node that is the same for all seven formats.

A node holds one or more *slots* (slot = one live productmd object + its
reference model); all slots share the run's SimFS.  Generic operations:

  dump / dumps        persist / serialise; the model's validity verdict decides
                      what must happen (C06), a failed dump must leave the
                      destination alone (C18), every text written is checked
                      for canonical form (C08) and format-specific file
                      invariants (C17)
  restart             "only durable state survives": the live object is
                      discarded and a fresh one is loaded from SimFS via path /
                      open handle at a random offset / loads(text); it must
                      equal what the model says was written (C01-C04), a
                      re-dump must be byte-identical
  c18_enum            F1: for every k below the number of validator
                      invocations of one dump, the k-th invocation raises; the
                      destination must be untouched
  cmp_slots           C08: slots whose models are equal must dump to the same
                      bytes

Format-specific subclasses provide: new_obj, observe, validity, expected_loaded,
and their API ops.
"""
import collections
import copy
import random
import io
import json
import os

from ..core import MachineBase, Violation
from ..seams import CTX, InjectedValidatorFault, HarnessError
from ..util import cjson, h64, short, exc_class
from .. import ini as inimod

VALID, INVALID, UNSPEC = "valid", "invalid", "unspec"


def dec(v):
    """ops are JSON; {"__bytes__": "text"} stands for a bytes value (a py2-minded caller handing bytes to a text field)"""
    if isinstance(v, dict) and list(v.keys()) == ["__bytes__"]:
        return v["__bytes__"].encode("utf-8")
    if isinstance(v, dict) and list(v.keys()) == ["__set__"]:
        return set(v["__set__"])          # a caller handing a set (or tuple) where a list is documented
    if isinstance(v, dict) and list(v.keys()) == ["__tuple__"]:
        return tuple(v["__tuple__"])
    if isinstance(v, dict) and list(v.keys()) == ["__float__"]:
        return float(v["__float__"])      # inf / -inf / nan: floats JSON has no literal for
    return v


class Slot(object):
    def __init__(self):
        self.obj = None
        self.model = None
        self.pool = {}      # format specific handles (variants, images...)
        self.tainted = False   # model no longer authoritative (unspecified territory)


def first_diff(a, b, path=""):
    """Human-sized description of the first difference between two JSON-like
    structures (None if equal)."""
    def kind(x):
        # which concrete mapping / sequence class holds the data is not a fact about the metadata
        if isinstance(x, dict):
            return "mapping"
        if isinstance(x, (list, tuple)):
            return "sequence"
        if isinstance(x, bool):
            return "bool"
        if isinstance(x, (int, float)):
            return "number"
        if isinstance(x, str):
            return "str"
        return type(x).__name__
    if kind(a) != kind(b):
        return "%s: type %s vs %s (%s vs %s)" % (path or "/", type(a).__name__, type(b).__name__, short(a, 60), short(b, 60))
    if isinstance(a, dict):
        for k in sorted(set(a) | set(b), key=repr):
            if k not in a:
                return "%s/%s: missing on left (right=%s)" % (path, k, short(b[k], 60))
            if k not in b:
                return "%s/%s: missing on right (left=%s)" % (path, k, short(a[k], 60))
            d = first_diff(a[k], b[k], "%s/%s" % (path, k))
            if d:
                return d
        return None
    if isinstance(a, (list, tuple)):
        if len(a) != len(b):
            return "%s: length %d vs %d" % (path or "/", len(a), len(b))
        for i, (x, y) in enumerate(zip(a, b)):
            d = first_diff(x, y, "%s[%d]" % (path, i))
            if d:
                return d
        return None
    if a != b:
        return "%s: %s vs %s" % (path or "/", short(a, 60), short(b, 60))
    return None


def diff_key(d):
    """Stable cause-key fragment out of a first_diff string: the path with
    indices and concrete ids stripped."""
    if not d:
        return "equal"
    p = d.split(":")[0]
    out = []
    for part in p.split("/"):
        if not part:
            continue
        part = part.split("[")[0]
        out.append(part)
    return "/".join(out[-2:]) if out else "root"


class FormatMachine(MachineBase):
    FORMAT = "?"
    ROUNDTRIP_PROP = "C01"
    KIND = "json"            # json | ini | discinfo
    FILE = "metadata.json"

    def __init__(self, ctx, cfg):
        MachineBase.__init__(self, ctx, cfg)
        self.slots = {}
        self.durable = {}    # path -> {"expected":..., "bytes":..., "clean": bool, "dump_kw":...}
        self.fs.mkdirs("/sim/d")
        self.nrestarts = 0

    # ---- to be provided by subclasses ------------------------------------
    def new_obj(self):
        raise NotImplementedError

    def observe(self, obj):
        raise NotImplementedError

    def validity(self, slot):
        """(VALID|INVALID|UNSPEC, reason-key)"""
        return VALID, ""

    def expected_loaded(self, slot):
        """What observe() must give after dump -> fresh load (documented
        normalisations applied to the model)."""
        raise NotImplementedError

    def rebind(self, slot):
        """After a restart: re-resolve format specific handles against the new object."""
        pass

    def nontrivial(self, slot):
        return True

    def abstract(self, slot):
        """Small JSON-able abstraction of the model, for distinct-case counting."""
        return h64(slot.model)

    def file_invariants(self, slot, text, op):
        """Format specific checks on every text that is written (C17...)."""
        return None

    def arg(self, path):
        """the path as it is HANDED to productmd: in a run with a current directory, files below it are addressed
        relatively (bare name, ./name, or dir/../name), the way a tool started inside the compose tree does"""
        cwd = self.cfg.get("cwd")
        if not cwd or not isinstance(path, str) or not path.startswith(cwd.rstrip("/") + "/"):
            return path
        rel = path[len(cwd.rstrip("/")) + 1:]
        form = self.cfg.get("rel_form", "bare")
        if form == "dot":
            return "./" + rel
        return rel

    def dest(self, target, op):
        """the destination as it is handed to dump(): a str path (relative in runs with a current directory), an open handle,
        or - for dumps that are expected to be refused - an os.PathLike naming the same file"""
        t = self.arg(target)
        if op.get("dest") == "pathlike" and op.get("_pathlike_ok") and isinstance(t, str):
            import pathlib
            CTX.probe("dump.destination_given_as_pathlike")
            return pathlib.Path(t)
        return t

    def do_dump(self, slot, target, op):
        slot.obj.dump(self.dest(target, op))

    def dump_via_handle(self, s, path, op):
        """dump(f) with f an open file object (the other documented kind of destination)"""
        with open(path, "w") as fo:
            self.do_dump(s, fo, op)       # (a handle, not a path: arg() leaves it alone)

    # ---- helpers ------------------------------------------------------------
    def slot(self, op):
        return self.slots.get(op.get("slot", 0))

    def state_hash(self):
        return h64([[k, s.model, s.tainted] for k, s in sorted(self.slots.items())])

    def path(self, op):
        return op.get("path") or ("/sim/d/" + self.FILE)

    def check_canonical(self, text):
        """C08 format rule, by independent code."""
        if not self.watching("C08"):
            return
        if self.KIND == "json":
            try:
                doc = json.loads(text)
            except ValueError as e:
                raise Violation("C08", "C08.output_is_json", "not-json/%s" % self.FORMAT, {"error": str(e)[:100]})
            text = text.rstrip("\n")          # a trailing newline is not part of the rule either
            want = json.dumps(doc, indent=4, sort_keys=True, separators=(",", ": "))
            # the property fixes key order and indentation, not whether non-ASCII characters are \u-escaped
            want2 = json.dumps(doc, indent=4, sort_keys=True, separators=(",", ": "), ensure_ascii=False)
            if text != want and text != want2:
                raise Violation("C08", "C08.json_sorted_indent4", "noncanonical-json/%s" % self.FORMAT,
                                {"diff": _text_diff(text, want)})
        elif self.KIND == "ini":
            ok, why = inimod.is_sorted(text)
            if not ok:
                raise Violation("C08", "C08.ini_sorted", "unsorted-ini/%s" % self.FORMAT, {"why": why})

    # ---- generic ops -----------------------------------------------------------
    def op_dump(self, op):
        s = self.slot(op)
        if s is None or s.obj is None:
            return "noop"
        path = self.path(op)
        before = self.fs.get(path)
        verdict, why = (UNSPEC, "tainted") if s.tainted else self.validity(s)
        if op.get("dest") == "pathlike":
            # support for PathLike destinations is not documented: only the fate of the good copy under a REFUSED dump is judged
            op = dict(op, _pathlike_ok=(verdict == INVALID and self.cfg.get("focus") == "C18"))
        # how much of what the generators produce lies inside the quantifiers (a generator that drifts into invalid or
        # unspecified content silently weakens every oracle behind it): reported with the reach probes
        CTX.probe("verdict.%s.%s" % (self.FORMAT, verdict if not s.tainted else "tainted"))
        mark = len(self.fs.trace)
        try:
            if op.get("to") == "handle" and verdict == VALID:
                self.dump_via_handle(s, path, op)
            else:
                self.do_dump(s, path, op)
        except Exception as e:
            if isinstance(e, HarnessError):
                raise
            return self._dump_failed(s, op, path, before, verdict, why, e, mark)
        after = self.fs.get(path)
        if verdict == INVALID and self.prop_for_invalid(why) != "C06" and self.watching(self.prop_for_invalid(why)):
            P = self.prop_for_invalid(why)
            raise Violation(P, "%s.invalid_object_written" % P, "written/%s/%s" % (self.FORMAT, why), {"why": why, "bytes": len(after or b"")})
        if verdict == INVALID and not self.watching("C06"):
            # another property's run: what now sits at the destination is simply not trusted any more
            self.durable[path] = {"expected": None, "bytes": after, "clean": False, "kw": {}}
            CTX.probe("foreign.invalid_object_written")
            return "written-invalid(foreign)"
        if verdict == INVALID:
            self.count("C06", ["accepted", self.FORMAT, why])
            raise Violation("C06", "C06.invalid_object_written", "written/%s/%s" % (self.FORMAT, why),
                            {"why": why, "bytes": len(after or b"")})
        if after is None:
            raise Violation(self.ROUNDTRIP_PROP, "%s.dump_wrote_nothing" % self.ROUNDTRIP_PROP, "no-file/%s" % self.FORMAT, {})
        try:
            text = after.decode("utf-8")
        except UnicodeDecodeError:
            raise Violation(self.ROUNDTRIP_PROP, "%s.dump_writes_what_was_asked" % self.ROUNDTRIP_PROP, "dump-returned-but-file-is-not-text/%s" % self.FORMAT,
                            {"bytes": len(after)})
        ambiguous = verdict == VALID and not s.tainted and self.order_ambiguous(self.expected_loaded(s))
        if not ambiguous:
            CTX.dump_hashes.append(_sha(text))
        if self.watching("C08") and verdict == VALID and before is not None and op.get("to") != "handle" and not ambiguous:
            # the bytes at the destination are a function of the content alone, whatever was at that path before: the same
            # call aimed at a path where nothing was yet writes the same bytes
            # (...nor on what the destination is CALLED: every third time the fresh path carries a name ending some tools
            # treat specially)
            sfx = ["", "", "", ".gz", ".bz2", ".bak~"][mark % 6]
            fresh = path + ".c08-fresh" + sfx
            self.fs.remove(fresh)
            try:
                self.do_dump(s, fresh, op)
                again = self.fs.get(fresh)
            except Exception as e:
                if isinstance(e, HarnessError):
                    raise
                again = None
            self.fs.remove(fresh)
            if again is not None and again != after:
                raise Violation("C08", "C08.bytes_independent_of_previous_file",
                                "bytes-depend-on-%s/%s" % ("destination-name" if sfx else "previous-file", self.FORMAT),
                                {"diff": _text_diff(again.decode("utf-8", "replace"), text), "suffix": sfx})
        if verdict == VALID:
            self.count("C06", ["valid-written", self.FORMAT, self.abstract(s)])
        if verdict == UNSPEC and not s.tainted and not self.keeps_roundtrip_oracle(why) and self.KIND == "ini":
            # content outside every quantifier (e.g. an option name the file syntax cannot carry) that the library chose to
            # write: if the independent reader cannot even parse the file, nothing is judged on it - it is only no longer trusted
            try:
                inimod.as_dict(text)
            except inimod.IniError:
                self.durable[path] = {"expected": None, "bytes": after, "clean": True, "kw": {}}
                CTX.probe("dump.unspecified_content_written_unparsable")
                return "ok-unspecified"
        self.check_canonical(text)
        self.count("C08", ["canon", self.FORMAT, self.abstract(s)])
        self.file_invariants(s, text, op)
        # an object the model calls UNSPECIFIED has no round-trip oracle either
        exp_now = None if (s.tainted or (verdict == UNSPEC and not self.keeps_roundtrip_oracle(why))) else self.expected_loaded(s)
        self.durable[path] = {"expected": exp_now, "bytes": after, "clean": True,
                              "kw": dict((k, op[k]) for k in ("main_variant",) if k in op)}
        if exp_now is None and s.tainted and getattr(s, "self_rt", False):
            # no model for this object, but the file is the library's own output for it: it loads and re-dumps identically
            self.durable[path]["self_rt"] = True
        if exp_now is not None and self.order_ambiguous(exp_now):
            self.durable[path]["lossy"] = True
        return "ok"

    def _dump_failed(self, s, op, path, before, verdict, why, e, mark):
        after = self.fs.get(path)
        opened = any(t[0] == "open_w" and t[1] == path for t in self.fs.trace[mark:])
        if verdict == VALID and self.watching("C06"):
            raise Violation("C06", "C06.valid_object_refused", "refused/%s/%s" % (self.FORMAT, exc_class(e)),
                            {"error": exc_class(e), "msg": str(e)[:160]})
        if verdict == VALID and self.cfg.get("focus") == self.ROUNDTRIP_PROP and self.ROUNDTRIP_PROP in ("C01", "C02", "C03", "C04"):
            # a write/read cycle that cannot even start: in a run of the format's round-trip property it is reported there
            P = self.ROUNDTRIP_PROP
            raise Violation(P, "%s.valid_object_can_be_written" % P, "valid-object-refused/%s/%s" % (self.FORMAT, exc_class(e)),
                            {"error": exc_class(e), "msg": str(e)[:160], "destination": self.arg(path) if isinstance(path, str) else "handle"})
        if verdict == INVALID:
            self.count("C06", ["refused", self.FORMAT, why])
            if not isinstance(e, (TypeError, ValueError)):
                raise Violation("C06", "C06.wrong_exception_type", "exctype/%s/%s/%s" % (self.FORMAT, why, exc_class(e)),
                                {"error": exc_class(e), "msg": str(e)[:160], "why": why})
        if after != before and not self.watching("C18"):
            # not this run's property: just stop trusting what is stored there
            if path in self.durable:
                self.durable[path]["clean"] = False
                self.durable[path]["expected"] = None
        elif verdict == INVALID or isinstance(e, (TypeError, ValueError)) or (verdict == UNSPEC and not s.tainted and not isinstance(e, OSError)):
            # the dump failed on validation: C18 applies (also when an object the model does not call valid is refused with
            # another exception class - a validator tripping over a value of the wrong type raises AttributeError)
            self.count("C18", ["real-invalid", self.FORMAT, why, before is None])
            CTX.fault("F2.invalid_value_dump")
            if after != before:
                raise Violation("C18", "C18.dest_unchanged_after_failed_dump",
                                "dest-changed/%s/%s" % (self.FORMAT, "opened-before-failure" if opened else "not-opened"),
                                {"before_len": None if before is None else len(before),
                                 "after_len": None if after is None else len(after),
                                 "opened_for_write_before_failure": opened, "why": why, "error": exc_class(e)})
        return "refused:" + exc_class(e)

    def op_fs_mkdir(self, op):
        self.fs.mkdirs(op["path"])
        return "ok"

    def op_fs_clobber(self, op):
        """another writer replaces the file at the destination between two operations of this node"""
        path = self.path(op)
        if self.fs.get(path) is None:
            return "noop"
        how = op.get("how", "garbage")
        data = {"garbage": b"\x00 not metadata at all \xff", "empty": b"", "json": b'{"header": {"version": "1.2", "type": "productmd.other"}, "payload": {}}\n' * 40,
                "longer": (self.fs.get(path) or b"") + b"\n" + b"#" * 4096}.get(how, b"x")
        self.fs.put(path, data)
        if path in self.durable:
            self.durable[path]["clean"] = False
            self.durable[path]["expected"] = None
        CTX.fault("F4.destination_replaced_by_another_writer")
        return "clobbered:" + how

    def op_fs_alias(self, op):
        """the stored file is shared: the destination path becomes a symbolic link to it, or the file gets a second hard
        link (compose trees share files that way).  Nothing about the CONTENT at the path changes."""
        from .. import simfs
        path = self.path(op)
        if self.fs.get(path) is None:
            return "noop"
        real = self.fs.real(path)
        if os.path.islink(real):
            return "noop"
        how = op.get("how", "symlink")
        if how == "symlink":
            target = real + ".target"
            simfs._o["rename"](real, target)
            simfs._o["symlink"](os.path.basename(target), real)
        else:
            other = real + ".hardlink"
            if not os.path.exists(other):
                simfs._o["link"](real, other)
        CTX.fault("F4.destination_is_a_link")
        return "aliased:" + how

    def op_fs_reorder_json(self, op):
        """somebody re-saved the stored JSON document with another tool: same content, other KEY ORDER in every object (and
        other whitespace) - the order of the keys of a JSON object carries no information"""
        path = self.path(op)
        d = self.durable.get(path)
        raw = self.fs.get(path)
        if d is None or raw is None or self.KIND != "json":
            return "noop"
        try:
            doc = json.loads(raw.decode("utf-8"))
        except ValueError:
            return "noop"
        rng = random.Random(op.get("seed", 0))
        how = op.get("how", "shuffle")

        def reorder(x):
            if isinstance(x, dict):
                keys = sorted(x)
                if how == "reverse":
                    keys.reverse()
                else:
                    rng.shuffle(keys)
                return collections.OrderedDict((k, reorder(x[k])) for k in keys)
            if isinstance(x, list):
                return [reorder(i) for i in x]
            return x
        ind, asc = pick_indent(rng), rng.random() < 0.5
        out = json.dumps(reorder(doc), indent=ind, ensure_ascii=asc)
        try:
            out.encode("utf-8")
        except UnicodeEncodeError:
            out = json.dumps(reorder(doc), indent=ind, ensure_ascii=True)      # (a lone surrogate has no UTF-8 form: it stays escaped)
        self.fs.put(path, out)
        d["bytes"] = self.fs.get(path)
        d["lossy"] = True       # the file is no longer the library's own canonical rendering of the content
        CTX.fault("F3.json_keys_reordered")
        return "reordered"

    def op_dumps(self, op):
        s = self.slot(op)
        if s is None or s.obj is None:
            return "noop"
        verdict, why = (UNSPEC, "tainted") if s.tainted else self.validity(s)
        try:
            text = s.obj.dumps()
        except Exception as e:
            if isinstance(e, HarnessError):
                raise
            if verdict == VALID:
                raise Violation("C06", "C06.valid_object_refused", "refused/%s/%s" % (self.FORMAT, exc_class(e)),
                                {"error": exc_class(e), "msg": str(e)[:160], "via": "dumps"})
            if verdict == INVALID:
                self.count("C06", ["refused-s", self.FORMAT, why])
                if not isinstance(e, (TypeError, ValueError)):
                    raise Violation("C06", "C06.wrong_exception_type", "exctype/%s/%s/%s" % (self.FORMAT, why, exc_class(e)),
                                    {"error": exc_class(e), "msg": str(e)[:160], "why": why})
            return "refused:" + exc_class(e)
        if verdict == INVALID and self.prop_for_invalid(why) != "C06" and self.watching(self.prop_for_invalid(why)):
            P = self.prop_for_invalid(why)
            raise Violation(P, "%s.invalid_object_written" % P, "written/%s/%s" % (self.FORMAT, why), {"why": why, "via": "dumps", "chars": len(text)})
        if verdict == INVALID and not self.watching("C06"):
            return "written-invalid(foreign)"
        if verdict == INVALID:
            raise Violation("C06", "C06.invalid_object_written", "written/%s/%s" % (self.FORMAT, why),
                            {"why": why, "via": "dumps", "chars": len(text)})
        if not (verdict == VALID and not s.tainted and self.order_ambiguous(self.expected_loaded(s))):
            CTX.dump_hashes.append(_sha(text))
        self.check_canonical(text)
        self.file_invariants(s, text, op)
        if verdict == VALID:
            self.count("C06", ["valid-written-s", self.FORMAT, self.abstract(s)])
        return "ok:%d" % len(text)

    def load_fresh(self, path, via, offset=0):
        """Build a fresh instance and load it from SimFS the way `via` says.
        Returns the new object; exceptions propagate."""
        new = self.new_obj()
        pre = getattr(self, "_pre_load", None)
        if pre:
            self._pre_load = None
            hdr = getattr(new, "header", None)
            if "peek" in pre and hdr is not None:
                try:
                    hdr.version_tuple         # a public, read-only look at a fresh object must not influence the load
                    hdr.version
                except Exception:
                    pass
            for kind in pre:
                if kind == "peek":
                    continue
                if kind == "used-other-disc":
                    # the SAME object read another disc's file before (a tool walking over the discs of a set): a .discinfo
                    # is four lines and every one of them is read, so nothing of the earlier file may remain
                    if self.FORMAT == "discinfo":
                        self.fs.put("/sim/d/.other-disc", "1000000000.5\nOther Product 1\ns390x\n2,3\n")
                        try:
                            new.load("/sim/d/.other-disc")
                            CTX.probe("load.object_used_for_another_disc_before")
                        except Exception as e:
                            if isinstance(e, HarnessError):
                                raise
                            new = self.new_obj()
                        self.fs.remove("/sim/d/.other-disc")
                    continue
                # a load that is REFUSED first (the object stays the caller's; it is then used for the real load)
                junk = "/sim/d/.junk-" + self.FILE
                self.fs.put(junk, self.junk_document(kind))
                try:
                    new.load(junk)
                except Exception:
                    pass
                else:
                    new = self.new_obj()      # it was (legitimately) accepted: not the scenario, start over with a fresh one
                self.fs.remove(junk)
                CTX.probe("load.after_refused_load." + kind)
        if via == "handle":
            f = self.fs.open(path, "r")
            try:
                data_len = len(self.fs.get(path) or b"")
                if offset and data_len:
                    f.read(offset % data_len)       # loader must rewind
                # every third time the handle is a delegating wrapper (what tempfile.NamedTemporaryFile or codecs.open hand
                # out): seekable and readable, but not an io.IOBase instance
                new.load(_HandleProxy(f) if offset % 3 == 1 else f)
            finally:
                f.close()
        elif via == "loads":
            new.loads(self.fs.get(path).decode("utf-8"))
        elif via == "parsed" and self.KIND == "json":
            # the caller parsed the document itself and hands the SAME parsed mapping to two objects, one after the other
            # (deserialize() only reads it): the second object is the one the node goes on with
            doc = json.loads(self.fs.get(path).decode("utf-8"))
            snap = cjson(doc)
            first = new
            first.deserialize(doc)
            if cjson(doc) != snap:
                PP = getattr(self, "_load_prop", None) or self.ROUNDTRIP_PROP
                raise Violation(PP, "%s.deserialize_only_reads_its_input" % PP, "deserialize-changed-the-parsed-document/%s" % self.FORMAT, {})
            new = self.new_obj()
            new.deserialize(doc)
            self._serialize_into_parsed(doc)
        else:
            new.load(self.arg(path))
        return new

    def _serialize_into_parsed(self, doc):
        """...and writes the result back into that very mapping (serialize(parser) is how dump() itself fills a document;
        a tool that edits a parsed document in place does the same): what ends up in the mapping is what serialising
        into an empty one gives - nothing of what was read lingers in it (an 'src' cell, a legacy section name)"""
        focus = self.cfg.get("focus")
        P = focus if focus in ("C10", "C05", self.ROUNDTRIP_PROP) else None
        if P is None:
            return
        third = self.new_obj()
        try:
            third.deserialize(doc)
            fresh = {}
            third.serialize(fresh)
            third.serialize(doc)
        except Exception as e:
            if isinstance(e, HarnessError):
                raise
            return
        CTX.probe("load.serialized_back_into_the_parsed_document")
        if cjson(doc) != cjson(fresh):
            raise Violation(P, "%s.serialize_into_read_document" % P, "leftovers-of-the-read-document-in-the-written-one/%s" % self.FORMAT,
                            {"diff": first_diff(fresh, doc)})

    def junk_document(self, kind):
        if kind == "wrong-type" and self.KIND == "json":
            other = "productmd.rpms" if self.HEADER_TYPE != "productmd.rpms" else "productmd.images"
            return json.dumps({"header": {"type": other, "version": "1.2"}, "payload": {}})
        if kind == "wrong-type" and self.KIND == "ini":
            return "[header]\ntype = productmd.images\nversion = 1.2\n"
        if kind == "empty":
            return b""
        return b"\x00\xff definitely not metadata"

    def op_restart(self, op):
        s = self.slot(op)
        if s is None:
            return "noop"
        self._pre_load = op.get("pre")
        path = self.path(op)
        d = self.durable.get(path)
        if self.fs.get(path) is None or d is None:
            return "noop"
        via = op.get("via", "path")
        P = self.ROUNDTRIP_PROP
        self._load_prop = None
        CTX.fault("F9.restart_" + via)
        if d.get("legacy"):
            return self.restart_legacy(s, op, path, d, via)
        try:
            new = self.load_fresh(path, via, op.get("offset", 0))
        except Exception as e:
            if isinstance(e, HarnessError):
                raise
            if d.get("must") == "accept":
                raise Violation(d["must_prop"], "%s.damaged_but_legal_document_loads" % d["must_prop"],
                                "legal-document-rejected/%s/%s" % (d["must_key"], exc_class(e)),
                                {"error": exc_class(e), "msg": str(e)[:200], "via": via})
            if d.get("must") == "reject":
                self.count(d["must_prop"], ["rejected", d["must_key"], via])
            if d["clean"] and (d["expected"] is not None or d.get("self_rt")):
                P2 = self.prop_for_diff("/forest") if hasattr(self, "prop_for_diff") and self.cfg.get("focus") == "C11" and self.FORMAT == "composeinfo" else P
                raise Violation(P2, "%s.own_output_loads" % P2, "own-output-rejected/%s/%s" % (self.FORMAT, exc_class(e)),
                                {"error": exc_class(e), "msg": str(e)[:200], "via": via})
            return "load-failed:" + exc_class(e)
        if d["clean"] and d["expected"] is not None:
            got = self.observe(new)
            diff = first_diff(d["expected"], got)
            self.count(P, ["restart", via, self.abstract_expected(d["expected"])])
            if diff:
                P2 = self.prop_for_diff(diff)
                raise Violation(P2, "%s.restart_equals_written" % P2, "restart-differs/%s/%s" % (self.FORMAT, diff_key(diff)),
                                {"diff": diff, "via": via})
            try:
                text = self.redump(new, d)
            except Exception as e:
                if isinstance(e, HarnessError):
                    raise
                raise Violation(P, "%s.reloaded_object_dumps" % P, "redump-raises/%s/%s" % (self.FORMAT, exc_class(e)),
                                {"error": exc_class(e), "msg": str(e)[:200]})
            if text.encode("utf-8") != d["bytes"] and not d.get("lossy"):
                if self.cfg.get("focus") == "C08":
                    P = "C08"       # equal content (the observation above), different bytes: in a C08 run it is C08's finding
                raise Violation(P, "%s.redump_byte_identical" % P, "redump-differs/%s" % self.FORMAT,
                                {"diff": _text_diff(d["bytes"].decode("utf-8", "replace"), text)})
            s.obj = new
            s.model = self.model_from_expected(s, d["expected"])
            s.tainted = False
            s.self_rt = False
            self.rebind(s)
            self.nrestarts += 1
            return "restarted"
        if d["clean"] and d.get("self_rt"):
            self.count(P, ["restart-self", via])
            try:
                text = self.redump(new, d)
            except Exception as e:
                if isinstance(e, HarnessError):
                    raise
                raise Violation(P, "%s.reloaded_object_dumps" % P, "redump-raises/%s/%s" % (self.FORMAT, exc_class(e)),
                                {"error": exc_class(e), "msg": str(e)[:200]})
            if text.encode("utf-8") != d["bytes"]:
                PR = "C08" if self.cfg.get("focus") == "C08" else P
                raise Violation(PR, "%s.redump_byte_identical" % PR, "redump-differs/%s" % self.FORMAT,
                                {"diff": _text_diff(d["bytes"].decode("utf-8", "replace"), text)})
        if d.get("must") == "reject":
            raise Violation(d["must_prop"], "%s.bad_document_rejected" % d["must_prop"],
                            "bad-document-loaded/%s" % d["must_key"], {"via": via, "what": d["must_key"]})
        if d.get("must") == "accept":
            self.count(d["must_prop"], ["accepted", d["must_key"], via])
        # stored state not authoritative (damaged on purpose): nothing to compare
        s.obj = new
        s.tainted = True
        self.rebind(s)
        return "restarted-unspec"

    def redump(self, new, d):
        return new.dumps()

    def prop_for_diff(self, diff):
        """Which property a restart difference belongs to (several properties may cover the same fact;
        the run's focus decides, so that neither check loses the detection)."""
        return self.ROUNDTRIP_PROP

    # ---- C05: the durable state was written by an older incarnation of the software ------------------
    HEADER_TYPE = None
    CURRENT_VERSION = "1.2"

    def header_of(self, text):
        if self.KIND == "json":
            h = json.loads(text).get("header", {})
            return h.get("version"), h.get("type")
        if self.KIND == "ini":
            h = inimod.as_dict(text).get("header", {})
            return h.get("version"), h.get("type")
        return None, None

    def restart_legacy(self, s, op, path, d, via):
        """F8 + F9: node restarts on a document of an older format version.  C05: the load succeeds, carries
        the same facts (when an expected post-upgrade content is known), is written back as a
        current-version file with the proper header type, re-loading that file gives an identical object
        and a second write is byte-identical."""
        P = d.get("legacy_prop", "C05")
        self._load_prop = P
        ver = d.get("legacy_version", "?")
        key = "%s/v%s" % (self.FORMAT, ver)
        CTX.fault("F8.older_format_on_disk")
        if ver in ("0.0", "corpus") and getattr(self, "_pre_load", None):
            # a header-less file relies on the object's initial header version: re-using an object on which an earlier
            # load was refused half-way is not something the properties speak about for such files
            self._pre_load = [k for k in self._pre_load if k == "peek"]
        try:
            new = self.load_fresh(path, via, op.get("offset", 0))
        except Exception as e:
            if isinstance(e, HarnessError):
                raise
            raise Violation(P, "%s.older_document_accepted" % P, "older-document-rejected/%s/%s" % (key, exc_class(e)),
                            {"error": exc_class(e), "msg": str(e)[:200], "via": via, "source": d.get("source")})
        hdr = getattr(new, "header", None)
        if hdr is not None and self.HEADER_TYPE is not None and self.watching("C05"):
            # "converted on load to the current model": the live object is a current-version object from now on
            if getattr(hdr, "version", None) != self.CURRENT_VERSION:
                raise Violation("C05", "C05.object_is_current_version_after_load", "loaded-object-keeps-old-version/%s" % self.FORMAT,
                                {"header.version": getattr(hdr, "version", None), "document_version": ver})
        got = self.observe(new)
        self.count(P, ["legacy", key, via, d.get("source"), self.abstract_expected(got) if d["expected"] is None else self.abstract_expected(d["expected"])])
        if d["expected"] is not None:
            diff = first_diff(d["expected"], got)
            if diff:
                raise Violation(P, "%s.upgrade_carries_same_facts" % P, "upgrade-differs/%s/%s" % (key, diff_key(diff)),
                                {"diff": diff, "via": via})
        for part, want in sorted((d.get("partial") or {}).items()):
            have = got
            for k in part.split("/"):
                have = have.get(k) if isinstance(have, dict) else None
            diff = first_diff(want, have)
            if diff:
                P2 = "C16" if (part == "checksums" and self.cfg.get("focus") == "C16") else P
                raise Violation(P2, "%s.upgrade_carries_same_facts" % P2, "upgrade-differs/%s/%s/%s" % (key, part, diff_key(diff)),
                                {"diff": diff, "via": via})
        # the write-back / reload / second-write part runs on a SECOND object loaded from the same old document, so that
        # the object the node goes on living with has never been dumped (a dump may itself touch the live object)
        live = new
        try:
            new = self.load_fresh(path, "path", 0)
        except Exception as e:
            if isinstance(e, HarnessError):
                raise
            raise Violation(P, "%s.older_document_accepted" % P, "older-document-rejected-second-time/%s/%s" % (key, exc_class(e)),
                            {"error": exc_class(e), "msg": str(e)[:200]})
        try:
            text1 = self.redump(new, d)
        except Exception as e:
            if isinstance(e, HarnessError):
                raise
            new = live
            v = Violation("C05", "C05.upgraded_object_can_be_written", "upgraded-object-unwritable/%s/%s" % (key, exc_class(e)),
                          {"error": exc_class(e), "msg": str(e)[:200], "source": d.get("source")})
            self.soft(v)
            s.obj = new
            s.tainted = True
            self.rebind(s)
            return "legacy-unwritable-known"
        hv, ht = self.header_of(text1)
        if self.KIND != "discinfo" and (hv != self.CURRENT_VERSION or ht != self.HEADER_TYPE):
            raise Violation("C05", "C05.written_back_as_current_version", "written-back-header/%s" % key,
                            {"version": hv, "type": ht})
        try:
            new2 = self.new_obj()
            new2.loads(text1)
        except Exception as e:
            if isinstance(e, HarnessError):
                raise
            v = Violation("C05", "C05.rewritten_file_loads", "rewritten-file-rejected/%s/%s" % (key, exc_class(e)),
                          {"error": exc_class(e), "msg": str(e)[:200], "source": d.get("source")})
            self.soft(v)
            s.obj = live
            s.tainted = True
            self.rebind(s)
            return "legacy-reload-known"
        got2 = self.observe(new2)
        diff = first_diff(got, got2)
        if diff:
            raise Violation("C05", "C05.reload_of_rewritten_file_identical", "reload-differs/%s/%s" % (key, diff_key(diff)),
                            {"diff": diff, "source": d.get("source")})
        text2 = self.redump(new2, d)
        if text2 != text1 and not self.order_ambiguous(got):
            raise Violation("C05", "C05.second_write_byte_identical", "second-write-differs/%s" % key,
                            {"diff": _text_diff(text1, text2), "source": d.get("source")})
        self._used_object_differential(path, text1, key)
        # the node now runs on the upgraded state
        self.fs.put(path, text1)
        self.durable[path] = {"expected": got, "bytes": text1.encode("utf-8"), "clean": True, "kw": d.get("kw", {})}
        self.after_legacy_durable(path, got)
        s.obj = live
        s.model = self.model_from_expected(s, got)
        s.tainted = False
        self.rebind(s)
        return "upgraded"

    def after_legacy_durable(self, path, got):
        pass

    def _used_object_differential(self, path, text1, key):
        """An object that has read ANOTHER document before is given the older document, its twin the same document as the
        library itself re-wrote it in the current format: whether a second load merges into or replaces what the object
        held is nobody's promise - but the version of the FILE is not allowed to decide it (same facts either way)."""
        if self.cfg.get("focus") != "C05" or self.FORMAT not in ("rpms", "modules", "extra_files", "composeinfo"):
            return
        prime = self.prime_document()
        if prime is None:
            return
        pfile, cur = path + ".prime", path + ".as-current"
        self.fs.put(pfile, prime)
        self.fs.put(cur, text1)
        res = []
        for second in (path, cur):
            o = self.new_obj()
            try:
                o.load(pfile)
                o.load(second)
                res.append(self.observe(o))
            except Exception as e:
                if isinstance(e, HarnessError):
                    raise
                res.append("raises")
        self.fs.remove(pfile)
        self.fs.remove(cur)
        self.count("C05", ["used-object-differential", self.FORMAT, res[0] == "raises", res[1] == "raises"])
        CTX.probe("c05.older_document_read_by_a_used_object")
        if (res[0] == "raises") != (res[1] == "raises"):
            raise Violation("C05", "C05.same_facts_whatever_the_file_version", "used-object-load-outcome-differs/%s" % key,
                            {"older": res[0] == "raises", "current": res[1] == "raises"})
        if res[0] != "raises":
            diff = first_diff(res[1], res[0])
            if diff:
                raise Violation("C05", "C05.same_facts_whatever_the_file_version", "used-object-load-differs/%s/%s" % (key, diff_key(diff)), {"diff": diff})

    def order_ambiguous(self, observed):
        """content whose serialised order the property does not define (outside its quantifier)"""
        return False

    def op_corpus_load(self, op):
        """F8: a historical fixture shipped with the repository (tests/...) becomes the node's durable state."""
        import os
        repo = os.environ.get("VERIF_REPO", "/repo")
        src = os.path.join(repo, "tests", op["file"])
        try:
            with open(src, "rb") as f:
                data = f.read()
        except (IOError, OSError):
            return "noop-missing"
        if op.get("slot", 0) not in self.slots:
            self.slots[op.get("slot", 0)] = Slot()
        path = self.path(op)
        self.fs.put(path, data)
        # the recorded reference (golden/corpus.json): what the readers made of this fixture on the tree as fixed
        if _CORPUS_GOLDEN[0] is None:
            from ..core import VERIF
            try:
                with open(os.path.join(VERIF, "golden", "corpus.json")) as f:
                    _CORPUS_GOLDEN[0] = json.load(f)["cases"]
            except (IOError, OSError, ValueError):
                _CORPUS_GOLDEN[0] = {}
        want = _CORPUS_GOLDEN[0].get("%s:%s" % (getattr(self, "name", ""), op["file"]))
        self.durable[path] = {"expected": copy.deepcopy(want), "bytes": data, "clean": True, "legacy": True, "legacy_version": "corpus",
                              "legacy_prop": "C05", "source": "corpus:" + op["file"], "kw": {}}
        CTX.probe("c05.corpus_fixture_loaded")
        return "corpus:%d" % len(data)

    def abstract_expected(self, expected):
        return h64(expected)

    def model_from_expected(self, slot, expected):
        """After a restart the model becomes what was durable."""
        return copy.deepcopy(expected)

    # ---- C18: F1 enumeration -------------------------------------------------------
    def op_c18_enum(self, op):
        s = self.slot(op)
        if s is None or s.obj is None or s.tainted:
            return "noop"
        verdict, why = self.validity(s)
        if verdict != VALID:
            return "noop-invalid"
        path = self.path(op)
        scratch = "/sim/d/.scratch-" + self.FILE
        # counting pass: same object, scratch destination
        CTX.count_validators(log=True)
        try:
            self.do_dump(s, scratch, op)
        except Exception as e:
            if isinstance(e, HarnessError):
                raise
            CTX.disarm_validator()
            raise Violation("C06", "C06.valid_object_refused", "refused/%s/%s" % (self.FORMAT, exc_class(e)),
                            {"error": exc_class(e), "msg": str(e)[:160], "via": "c18-count"})
        n = CTX.vcalls
        names = list(CTX.vlog or [])
        CTX.disarm_validator()
        self.fs.remove(scratch)
        ks = op.get("ks")
        if ks is None:
            ks = list(range(n))
            cap = op.get("cap")
            if cap and n > cap:
                # deterministic spread: first, last and evenly spaced ones
                step = n / float(cap)
                ks = sorted(set([0, n - 1] + [int(i * step) for i in range(cap)]))
        before = self.fs.get(path)
        done = 0
        for k in ks:
            if k >= n:
                continue
            mark = len(self.fs.trace)
            CTX.arm_validator(k)
            raised = None
            try:
                self.do_dump(s, path, op)
            except InjectedValidatorFault as e:
                raised = e
            except Exception as e:
                if isinstance(e, HarnessError):
                    raise
                raised = e
            finally:
                fired = CTX.armed_fired
                CTX.disarm_validator()
            vname = names[k] if k < len(names) else "?"
            if not fired:
                # validator count differs between two dumps of the same object: not this property's business
                if raised is None:
                    before = self.fs.get(path)
                continue
            after = self.fs.get(path)
            done += 1
            self.count("C18", ["F1", self.FORMAT, vname, before is None])
            if raised is None:
                # the library swallowed a validation failure and wrote anyway
                raise Violation("C06", "C06.validator_failure_swallowed", "swallowed/%s/%s" % (self.FORMAT, vname),
                                {"k": k, "validator": vname, "ks": [k]})
            if after != before:
                opened = any(t[0] == "open_w" and t[1] == path for t in self.fs.trace[mark:])
                raise Violation("C18", "C18.dest_unchanged_after_failed_dump",
                                "dest-changed/%s/%s" % (self.FORMAT, "opened-before-failure" if opened else "not-opened"),
                                {"k": k, "of": n, "validator": vname, "ks": [k],
                                 "before_len": None if before is None else len(before),
                                 "after_len": None if after is None else len(after),
                                 "opened_for_write_before_failure": opened})
        CTX.probe("c18.validators_per_dump.%s" % self.FORMAT, n)
        # progress once the fault stops: the same dump now succeeds
        if op.get("then_dump", True):
            return "enum:%d/" % done + self.op_dump(op)
        return "enum:%d" % done

    # ---- C07: damage between the write and the next restart ---------------------------------------
    def op_c07_enum(self, op):
        from .. import corrupt
        s = self.slot(op)
        path = self.path(op)
        d = self.durable.get(path)
        if s is None or d is None or not d["clean"] or d["expected"] is None or d.get("legacy") or self.fs.get(path) is None:
            return "noop"
        text = self.fs.get(path).decode("utf-8")
        structured, unstructured = corrupt.corruptions(self.name, text, CTX.order_seed)
        todo = structured + unstructured
        only = op.get("only")
        if only is not None:
            todo = [c for i, c in enumerate(todo) if i in only]
            idx = list(only)
        else:
            idx = list(range(len(todo)))
            cap = op.get("cap")
            if cap and len(todo) > cap:
                step = len(todo) / float(cap)
                idx = sorted(set(int(i * step) for i in range(cap)))
                todo = [todo[i] for i in idx]
        scratch = "/sim/d/.c07-" + self.FILE
        done = 0
        for n, c in zip(idx, todo):
            via = ["path", "handle", "loads"][n % 3]
            if via == "loads":
                try:
                    c["data"].decode("utf-8")
                except UnicodeDecodeError:
                    via = "path"
            self.fs.put(scratch, c["data"])
            CTX.fault("F3.structured_damage" if c["must"] != "weak" else "F4.unstructured_damage")
            CTX.fault("F9.restart_" + via)
            try:
                new = self.load_fresh(scratch, via, offset=n)
                raised = None
            except Exception as e:
                if isinstance(e, HarnessError):
                    raise
                raised = e
            done += 1
            self.count("C07", [self.FORMAT, c["key"], c["must"], raised is not None, via])
            if c["must"] == "reject" and raised is not None and n % 4 == 0:
                # the rejection does not wear off: the SAME object refuses the same document a second time, and an object
                # that has successfully loaded another (valid) document before refuses it as well
                for variant in ("again", "primed"):
                    obj = self.new_obj()
                    try:
                        if variant == "again":
                            try:
                                obj.load(scratch)
                            except Exception:
                                pass
                        else:
                            prime = self.prime_document()
                            if prime is None:
                                continue
                            self.fs.put(scratch + ".prime", prime)
                            obj.load(scratch + ".prime")
                        obj.load(scratch)
                        second = None
                    except Exception as e2:
                        if isinstance(e2, HarnessError):
                            raise
                        second = e2
                    if second is None:
                        raise Violation("C07", "C07.bad_document_rejected", "bad-document-loaded-%s/%s/%s" % (variant, self.FORMAT, c["key"]),
                                        {"corruption": c["key"], "history": variant, "only": [n]})
                attr = {"composeinfo": ("info", "composeinfo.json"), "images": ("images", "images.json"), "rpms": ("rpms", "rpms.json"),
                        "modules": ("modules", "modules.json")}.get(self.FORMAT)
                if attr is not None and n % 8 == 0:
                    # ...nor does it depend on the ROUTE: the same file reached through a compose directory is refused by the
                    # accessor, the second time as well as the first
                    import productmd.compose
                    root = "/sim/c07-compose"
                    self.fs.rmtree(root)
                    self.fs.put(root + "/metadata/" + attr[1], self.fs.get(scratch))
                    if attr[0] != "info":
                        self.fs.put(root + "/metadata/composeinfo.json", self.prime_document_for("composeinfo"))
                    try:
                        comp = productmd.compose.Compose(root)
                    except Exception as e3:
                        if isinstance(e3, HarnessError):
                            raise
                        comp = None
                    for attempt in ("first", "second"):
                        if comp is None:
                            break
                        try:
                            getattr(comp, attr[0])
                            got3 = None
                        except Exception as e3:
                            if isinstance(e3, HarnessError):
                                raise
                            got3 = e3
                        if got3 is None:
                            raise Violation("C07", "C07.bad_document_rejected", "bad-document-loaded-via-compose-%s/%s/%s" % (attempt, self.FORMAT, c["key"]),
                                            {"corruption": c["key"], "attempt": attempt, "only": [n]})
                    self.fs.rmtree(root)
            if c["must"] == "reject" and raised is None:
                raise Violation("C07", "C07.bad_document_rejected", "bad-document-loaded/%s/%s" % (self.FORMAT, c["key"]),
                                {"corruption": c["key"], "via": via, "only": [n]})
            if c["must"] == "accept" and raised is not None:
                raise Violation("C07", "C07.type_not_checked_below_1_1", "legal-document-rejected/%s/%s/%s" % (self.FORMAT, c["key"], exc_class(raised)),
                                {"corruption": c["key"], "via": via, "msg": str(raised)[:160], "only": [n]})
            if c["must"] == "weak" and raised is None:
                # whatever a successful load returns satisfies what writing enforces
                tmp = Slot()
                tmp.obj = new
                try:
                    self._last_restart_path = None
                    tmp.model = self.model_from_observation(self.observe(new))
                    verdict, why = self.validity(tmp)
                except Exception:
                    verdict, why = UNSPEC, "unobservable"
                if verdict == INVALID:
                    raise Violation("C07", "C07.loaded_object_satisfies_write_constraints",
                                    "loaded-object-violates-constraint/%s/%s" % (self.FORMAT, why),
                                    {"corruption": c["key"], "why": why, "via": via, "only": [n]})
                if verdict == VALID:
                    try:
                        new.dumps()
                    except Exception as e:
                        if isinstance(e, HarnessError):
                            raise
                        raise Violation("C07", "C07.loaded_object_satisfies_write_constraints",
                                        "loaded-object-cannot-be-dumped/%s/%s" % (self.FORMAT, exc_class(e)),
                                        {"corruption": c["key"], "via": via, "msg": str(e)[:160], "only": [n]})
                    CTX.probe("c07.damaged_document_loaded_and_valid")
        self.fs.remove(scratch)
        return "c07:%d" % done

    def model_from_observation(self, obs):
        return copy.deepcopy(obs)

    def keeps_roundtrip_oracle(self, why):
        """an object the model calls UNSPECIFIED (it may be written or refused) normally has no round-trip oracle; for some
        reasons it has: IF the library agrees to write it, it reads it back"""
        return False

    def prop_for_invalid(self, why):
        """which property reports an invalid object that got written (C06, unless another property states the same rule and
        the run focuses on it)"""
        return "C06"

    def prime_document_for(self, fmt):
        from ..prime import PRIME
        return PRIME[fmt]

    def prime_document(self):
        """a small VALID current-format document of this format whose ids do not clash with generated content"""
        from ..prime import PRIME
        return PRIME.get(self.FORMAT)

    # ---- C08: equal content => equal bytes ---------------------------------------------
    def op_cmp_slots(self, op):
        live = [(k, s) for k, s in sorted(self.slots.items()) if s.obj is not None and not s.tainted]
        if len(live) < 2:
            return "noop"
        groups = {}
        for k, s in live:
            v, _ = self.validity(s)
            if v != VALID:
                continue
            exp = self.expected_loaded(s)
            if self.order_ambiguous(exp):
                continue        # outside C08's quantifier (e.g. two images of one cell sharing a path)
            groups.setdefault(cjson(exp), []).append((k, s))
        compared = 0
        for key, members in sorted(groups.items()):
            if len(members) < 2:
                continue
            texts = []
            for k, s in members:
                try:
                    texts.append((k, self.dumps_for_cmp(s, op)))
                except Exception as e:
                    if isinstance(e, HarnessError):
                        raise
                    raise Violation("C06", "C06.valid_object_refused", "refused/%s/%s" % (self.FORMAT, exc_class(e)),
                                    {"error": exc_class(e), "msg": str(e)[:160], "via": "cmp_slots"})
            compared += 1
            for k, t in texts:
                CTX.dump_hashes.append(_sha(t))
            self.count("C08", ["cmp", self.FORMAT, len(members), h64(key)])
            for k, t in texts[1:]:
                if t != texts[0][1]:
                    raise Violation("C08", "C08.equal_content_equal_bytes", "bytes-differ/%s" % self.FORMAT,
                                    {"slots": [texts[0][0], k], "diff": _text_diff(texts[0][1], t)})
        return "cmp:%d" % compared

    def dumps_for_cmp(self, s, op):
        return s.obj.dumps()

    def op_redump_same(self, op):
        """C08: repeated dumps of one object give the same bytes."""
        s = self.slot(op)
        if s is None or s.obj is None or s.tainted:
            return "noop"
        if self.validity(s)[0] != VALID:
            return "noop-invalid"
        if self.order_ambiguous(self.expected_loaded(s)):
            return "noop-order-ambiguous"       # outside C08's quantifier
        try:
            texts = [self.dumps_for_cmp(s, op) for _ in range(op.get("n", 2))]
        except Exception as e:
            if isinstance(e, HarnessError):
                raise
            raise Violation("C06", "C06.valid_object_refused", "refused/%s/%s" % (self.FORMAT, exc_class(e)),
                            {"error": exc_class(e), "msg": str(e)[:160], "via": "redump_same"})
        self.count("C08", ["redump", self.FORMAT, self.abstract(s)])
        for t in texts[1:]:
            if t != texts[0]:
                raise Violation("C08", "C08.repeated_dump_same_bytes", "repeat-differs/%s" % self.FORMAT,
                                {"diff": _text_diff(texts[0], t)})
        return "same"


class _HandleProxy(object):
    """a file-like object that delegates everything to a real handle (the shape of tempfile's wrapper)"""

    def __init__(self, f):
        self.file = f

    def __getattr__(self, name):
        return getattr(self.__dict__["file"], name)

    def __iter__(self):
        return iter(self.file)

    def __enter__(self):
        return self

    def __exit__(self, *a):
        return False


_CORPUS_GOLDEN = [None]


def pick_indent(rng):
    return rng.choice([None, 1, 2, 4])


def _sha(text):
    import hashlib
    return hashlib.sha256(text.encode("utf-8")).hexdigest()[:24]


def _text_diff(a, b):
    al, bl = a.split("\n"), b.split("\n")
    for i, (x, y) in enumerate(zip(al, bl)):
        if x != y:
            return {"line": i + 1, "left": x[:120], "right": y[:120]}
    if len(al) != len(bl):
        return {"line": min(len(al), len(bl)) + 1, "left_lines": len(al), "right_lines": len(bl)}
    return {}
