"""C11 - the variant forest stays consistent and every variant is findable.

Histories of valid and refused add calls (duplicate id, foreign arch, misaligned UID, bad id, blank
name, unknown type, own ancestor), lookups, get_variants with every filter combination, and
dump -> restart cycles; invariants evaluated by walking the live forest after every add.
"""
from .. import gen_ci, pools
from ..pools import pick, subset

ID = "C11"
LEVEL = "exploration"
RUNS = {"quick": 8000, "thorough": 200000}
REQUIRED_FAULTS = ["F5.refused_api_call", "F9.restart_path"]
MACHINES = ["M-CI"]


def broken_variant(K, rng, vid):
    """A variant object that must be refused by the container it is aimed at."""
    base = pick(rng, K["vars"])
    parent = base["parent"]
    kind = pick(rng, ["dup-id", "foreign-arch", "misaligned", "bad-id", "blank-name", "bad-type", "no-arches"])
    v = {"op": "var_new", "vid": vid, "id": base["id"], "uid": base["uid"], "name": "Broken " + kind, "type": "variant" if base["type"] == "layered-product" else base["type"],
         "arches": list(base["arches"])}
    fresh_id = "Z%d" % vid
    puid = None if parent is None else K["vars"][parent]["uid"]

    def uid_for(i):
        return i if puid is None else "%s-%s" % (puid, i)
    if kind == "dup-id":
        pass
    elif kind == "foreign-arch":
        v["id"], v["uid"] = fresh_id, uid_for(fresh_id)
        if parent is None:
            kind = "dup-id"
            v["id"], v["uid"] = base["id"], base["uid"]
        else:
            foreign = [a for a in pools.ARCHES if a not in K["vars"][parent]["arches"]]
            if foreign:
                v["arches"] = list(base["arches"]) + [foreign[0]]
            else:
                v["arches"] = []
            # the subset rule holds for every kind of child, a layered product (which carries its own release) included
            v["type"] = pick(rng, ["variant", "optional", "addon", "layered-product", "layered-product"])
            if v["type"] == "layered-product":
                v["release"] = gen_ci.gen_release_for_variant(rng)
    elif kind == "misaligned":
        v["id"], v["uid"] = fresh_id, ("Else-" + fresh_id) if puid is not None else (fresh_id + "x")
    elif kind == "bad-id":
        bad = pick(rng, ["Z-%d" % vid, "", "z %d" % vid, "z_%d" % vid, "Z\u00e9%d" % vid, "Z%d\u00b2" % vid, "\uff3a%d" % vid, "\u0417%d" % vid, "Z\u0663%d" % vid, "z.%d" % vid, "Z%d\n" % vid])
        v["id"], v["uid"] = bad, uid_for(bad)
    elif kind == "blank-name":
        v["id"], v["uid"], v["name"] = fresh_id, uid_for(fresh_id), ""
    elif kind == "bad-type":
        v["id"], v["uid"], v["type"] = fresh_id, uid_for(fresh_id), pick(rng, ["layered", "Variant", "", None])
    elif kind == "no-arches":
        v["id"], v["uid"], v["arches"] = fresh_id, uid_for(fresh_id), []
    add = {"op": "var_add", "var": vid, "into": "top" if parent is None else parent}
    return v, add


def getv_op(K, rng):
    at = "top"
    if K["vars"] and rng.random() < 0.4:
        at = pick(rng, K["vars"])["n"]
    arch = pick(rng, [None, None, "src", "ia64"] + pools.ARCHES)
    types = None
    if rng.random() < 0.5:
        types = subset(rng, pools.CI_VARIANT_TYPES, 0, 3)
        if at != "top" and rng.random() < 0.3:
            types = types + ["self"]        # the documented pseudo-type: the variant asked is included
    return {"op": "get_variants", "at": at, "arch": arch, "types": types, "recursive": rng.random() < 0.6}


def generate(rng, tier, idx):
    big = tier != "quick"
    K = gen_ci.gen_content(rng, max_vars=7, max_depth=3, paths=rng.random() < 0.3)
    ops = gen_ci.build_ops(K, rng)
    # separate construction prefix (ci_init + var_new) from the shuffled rest
    n_new = 1 + len(K["vars"])
    head, rest = ops[:n_new], ops[n_new:]
    extra = []
    vid = 100
    for _ in range(rng.randint(1, 5 if big else 4)):
        v, a = broken_variant(K, rng, vid)
        vid += 1
        extra.append((v, a))
    for v, a in extra:
        head.append(v)
    inter = []
    for v, a in extra:
        inter.append(a)
    # cycle attempts: add an ancestor (or the variant itself) into one of its descendants
    for v in K["vars"]:
        if v["parent"] is not None and rng.random() < 0.5:
            anc = v["parent"]
            while K["vars"][anc]["parent"] is not None and rng.random() < 0.5:
                anc = K["vars"][anc]["parent"]
            inter.append({"op": "var_add", "var": anc, "into": v["n"]})
    if rng.random() < 0.3 and K["vars"]:
        x = pick(rng, K["vars"])["n"]
        inter.append({"op": "var_add", "var": x, "into": x})
    own = []
    leaves = [v for v in K["vars"] if v["parent"] is not None and not any(c["parent"] == v["n"] for c in K["vars"])]
    if leaves and rng.random() < 0.35:
        # "its own ancestor" with nothing else wrong: the ancestor is renamed so that its UID and arches line up with the
        # (childless) descendant it is offered to - only the ancestry stands against the add - and renamed back afterwards
        leaf = pick(rng, leaves)
        anc = K["vars"][leaf["parent"]]
        while anc["parent"] is not None and rng.random() < 0.5:
            anc = K["vars"][anc["parent"]]
        own = [{"op": "var_set", "var": anc["n"], "field": "uid", "value": "%s-%s" % (leaf["uid"], anc["id"])},
               {"op": "var_set", "var": anc["n"], "field": "arches", "value": sorted(leaf["arches"])},
               {"op": "var_add", "var": anc["n"], "into": leaf["n"]},
               {"op": "var_set", "var": anc["n"], "field": "arches", "value": sorted(anc["arches"])},
               {"op": "var_set", "var": anc["n"], "field": "uid", "value": anc["uid"]}]
    for _ in range(rng.randint(2, 8)):
        inter.append(getv_op(K, rng))
    path = "/sim/d/composeinfo.json"
    for _ in range(rng.randint(0, 2)):
        inter.append({"op": "dump", "path": path})
        inter.append({"op": "restart", "path": path, "via": pick(rng, ["path", "path", "handle", "loads"]), "offset": rng.randint(0, 300)})
    # weave `inter` into `rest` at random positions (order inside each list preserved for rest)
    body = list(rest)
    for o in inter:
        body.insert(rng.randint(0, len(body)), o)
    def offers():
        # a variant that sits where it belongs is offered to a container that is not its own (top or another variant)
        out = []
        for _ in range(rng.randint(0, 2)):
            if len(K["vars"]) < 2:
                break
            v = pick(rng, K["vars"])
            own = "top" if v["parent"] is None else v["parent"]
            others = [x for x in ["top"] + [w["n"] for w in K["vars"] if w["n"] != v["n"]] if x != own]
            if others:
                out.append({"op": "var_add", "var": v["n"], "into": pick(rng, others)})
        return out
    dup = []
    kids = [v for v in K["vars"] if v["parent"] is not None and K["vars"][v["parent"]]["parent"] is None and not K["vars"][v["parent"]]["dashed"]]
    if kids and rng.random() < 0.2:
        # a childless top-level variant whose dashed UID equals the UID of somebody's child (Server > optional and a top-level
        # 'Server-optional'): every add is valid on its own, the forest as a whole has the UID twice and must not be written
        c = pick(rng, kids)
        pid = K["vars"][c["parent"]]["id"]
        dup = [{"op": "var_new", "vid": 300, "id": pid + c["id"], "uid": c["uid"], "name": "Twin", "type": "optional", "arches": ["x86_64"]},
               {"op": "var_add", "var": 300, "into": "top"}, {"op": "dump", "path": path}, {"op": "dumps"}]
    tail = own + offers() + [{"op": "forest_check"}, getv_op(K, rng), getv_op(K, rng), {"op": "dump", "path": path},
                       {"op": "restart", "path": path, "via": "path"}] + offers() + [{"op": "forest_check"}, getv_op(K, rng), {"op": "dumps"}] + dup
    return {"machine": "M-CI", "cfg": {"simset": pick(rng, ["insertion", "shuffle", "reverse"])}, "ops": head + body + tail}
