#!/venv/bin/python
"""Sensitivity self-test: apply each catalogued mutant to a scratch copy of /repo (mktemp, outside /repo and
/verif, removed immediately afterwards), require the repository's own 90 tests to stay green on the mutant,
and require the property's quick check to exit 1 with a VIOLATION line.

  selftest/sensitivity.py [--only NAME-SUBSTRING] [--prop Cxx] [--jobs N] [--tier quick]
Writes selftest/SENSITIVITY.md (table of results).  Exit 0 iff every mutant is caught.
"""
import argparse
import json
import os
import shutil
import subprocess
import sys
import tempfile
import time
from concurrent.futures import ThreadPoolExecutor

VERIF = os.path.dirname(os.path.dirname(os.path.abspath(__file__)))
REPO = os.environ.get("VERIF_REPO", "/repo")
sys.path.insert(0, os.path.join(VERIF, "selftest"))
from mutants import MUTANTS   # noqa: E402


def run_mutant(m, tier, keep_tests=True):
    d = tempfile.mkdtemp(prefix="pmd-mut-")
    try:
        dst = os.path.join(d, "repo")
        shutil.copytree(REPO, dst, ignore=shutil.ignore_patterns(".git", "__pycache__", "*.pyc", "*.egg-info"))
        for fname, old, new in m["edits"]:
            p = os.path.join(dst, fname)
            s = open(p).read()
            if s.count(old) != 1:
                return dict(m, status="PATCH-FAILED", detail="%s: pattern occurs %d times" % (fname, s.count(old)))
            open(p, "w").write(s.replace(old, new))
        res = {"name": m["name"], "prop": m["prop"]}
        if keep_tests:
            env = dict(os.environ, PYTHONPATH=dst, PYTHONDONTWRITEBYTECODE="1", PYTHONHASHSEED="0")
            t = subprocess.run(["/venv/bin/python", "-m", "pytest", "-q", "-x", "-p", "no:cacheprovider", "tests"], cwd=dst, env=env,
                               stdout=subprocess.PIPE, stderr=subprocess.STDOUT, timeout=600)
            out = t.stdout.decode("utf-8", "replace")
            res["tests_pass"] = t.returncode == 0
            if t.returncode != 0:
                res["status"] = "TESTS-FAIL"
                res["detail"] = out.strip().split("\n")[-1][:200]
                return res
        props = m["prop"] if isinstance(m["prop"], list) else [m["prop"]]
        caught_by = []
        t0 = time.time()
        for prop in props:
            env = dict(os.environ, VERIF_REPO=dst, VERIF_REPLAY_DIR=os.path.join(d, "replays"), VERIF_EVIDENCE_DIR=os.path.join(d, "evidence"))
            c = subprocess.run([os.path.join(VERIF, "bin", "check"), prop, "--tier", tier], cwd=VERIF, env=env,
                               stdout=subprocess.PIPE, stderr=subprocess.STDOUT, timeout=3000)
            out = c.stdout.decode("utf-8", "replace")
            if c.returncode == 1 and "VIOLATION property=%s" % prop in out:
                keys = [l for l in out.split("\n") if l.startswith("violation cause keys")]
                caught_by.append((prop, keys[0][:300] if keys else ""))
            elif c.returncode not in (0, 1):
                res["status"] = "HARNESS-ERROR"
                res["detail"] = out[-600:]
                return res
        res["wall_s"] = round(time.time() - t0, 1)
        res["status"] = "CAUGHT" if caught_by else "MISSED"
        res["detail"] = "; ".join("%s %s" % cb for cb in caught_by)[:400]
        return res
    finally:
        shutil.rmtree(d, ignore_errors=True)


def main():
    ap = argparse.ArgumentParser()
    ap.add_argument("--only")
    ap.add_argument("--prop")
    ap.add_argument("--jobs", type=int, default=4)
    ap.add_argument("--tier", default="quick")
    ap.add_argument("--no-write", action="store_true")
    args = ap.parse_args()
    ms = [m for m in MUTANTS if (not args.only or args.only in m["name"]) and
          (not args.prop or args.prop in (m["prop"] if isinstance(m["prop"], list) else [m["prop"]]))]
    with ThreadPoolExecutor(max_workers=args.jobs) as ex:
        results = list(ex.map(lambda m: run_mutant(m, args.tier), ms))
    bad = 0
    lines = ["# Sensitivity self-test (%s tier)" % args.tier, "",
             "Each mutant is one small patch to a scratch copy of /repo; the repository's own tests must stay green on it",
             "and the quick check of the named property must exit 1.", "",
             "| mutant | property | tests green | result | detail |", "|---|---|---|---|---|"]
    for r in results:
        print("%-60s %-10s %-14s %s" % (r["name"], r["prop"], r["status"], r.get("detail", "")[:150]))
        if r["status"] != "CAUGHT":
            bad += 1
        lines.append("| %s | %s | %s | %s | %s |" % (r["name"], r["prop"], r.get("tests_pass", "?"), r["status"],
                                                 r.get("detail", "").replace("|", "/").replace("\n", " ")[:200]))
    if not args.no_write and not args.only and not args.prop:
        with open(os.path.join(VERIF, "selftest", "SENSITIVITY.md"), "w") as f:
            f.write("\n".join(lines) + "\n")
    print("%d mutants, %d not caught" % (len(results), bad))
    return 1 if bad else 0


if __name__ == "__main__":
    sys.exit(main())
