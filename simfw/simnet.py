"""SimNet: the simulated network peer.

productmd reaches the network only through urllib (productmd.common._urlopen -> urllib.request.urlopen).  The
seam is one level BELOW the library: urllib.request.OpenerDirector.open is interposed process-wide, so the real
_urlopen (ssl context and all) and any other route through urllib the code under test may take ends here.

  * URLs on the simulated host  http(s)://sim.example/<p>  are answered by an in-process peer that serves the run's
    simulated disk: /sim/<p>.  The answer is a REAL http.client.HTTPResponse that parses a status line, headers and
    body from a fake socket (so isinstance checks, .read(), codecs readers, chunked decoding are the real thing).
  * any other URL raises HarnessError: the real network must never be reached.

Legal-but-unusual behaviours drawn per run (cfg["net"]): chunked transfer-encoding, the size of the pieces the
socket delivers, whether a directory answers 200 (auto-index page) or 404, extra headers.

Faults (armed by the machine, each firing counted): the n-th request from now is refused (URLError), answered
503, disconnected before a status line (RemoteDisconnected), times out while connecting (URLError(timeout)), or
its body is cut short (IncompleteRead when read).  Every request is appended to the peer's trace.
"""
import email.message
import http.client
import io
import posixpath
import socket
import urllib.error
import urllib.parse
import urllib.request

HOST = "sim.example"
FAULT_KINDS = ("refused", "http503", "disconnect", "timeout", "body_cut")

_orig_open = [None]


class _Dribble(io.RawIOBase):
    """a raw stream that hands out at most `piece` bytes per call, as a socket may"""

    def __init__(self, data, piece):
        self._d = data
        self._i = 0
        self._piece = max(1, piece)

    def readable(self):
        return True

    def readinto(self, b):
        n = min(len(b), self._piece, len(self._d) - self._i)
        b[:n] = self._d[self._i:self._i + n]
        self._i += n
        return n


class _FakeSock(object):
    def __init__(self, data, piece):
        self._f = io.BufferedReader(_Dribble(data, piece), buffer_size=max(16, piece))

    def makefile(self, mode="rb", *a, **kw):
        return self._f

    def close(self):
        pass

    def settimeout(self, t):
        pass


class Peer(object):
    def __init__(self, ctx):
        self.ctx = ctx
        self.trace = []          # (method, sim path, outcome)
        self.armed = None        # {"kind", "nth"}
        self.fired = None
        self.knobs = dict(ctx.cfg.get("net") or {})

    # ---- fault plan -------------------------------------------------------------------------------
    def arm(self, kind, nth=0, more=None):
        """the nth request from now fails with `kind`; `more` = [[kind, nth], ...] arms further requests of the same
        operation (both existence probes lost, a probe and the transfer, ...)"""
        plan = {int(nth): kind}
        for k, n in (more or []):
            plan.setdefault(int(n), k)
        self.armed = {"plan": plan, "i": 0}
        self.fired = None

    def disarm(self):
        self.armed = None

    def _take_fault(self):
        a = self.armed
        if a is None:
            return None
        kind = a["plan"].pop(a["i"], None)
        a["i"] += 1
        if not a["plan"]:
            self.armed = None
        if kind is None:
            return None
        self.fired = self.fired or kind
        self.ctx.fault("F10.net_" + kind)
        return kind

    # ---- serving -------------------------------------------------------------------------------------
    def _response(self, url, method, status, reason, body, cut=False):
        knobs = self.knobs
        head = ["HTTP/1.1 %d %s" % (status, reason), "Server: simnet", "Content-Type: " + knobs.get("ctype", "application/json")]
        declared = len(body)
        if cut:
            sent = body[:len(body) // 2]
        else:
            sent = body
        if knobs.get("chunked") and not cut and method != "HEAD":
            head.append("Transfer-Encoding: chunked")
            size = max(1, int(knobs.get("chunk", 7)))
            out = []
            for i in range(0, len(sent), size):
                piece = sent[i:i + size]
                out.append(b"%x\r\n" % len(piece) + piece + b"\r\n")
            out.append(b"0\r\n\r\n")
            payload = b"".join(out)
        else:
            head.append("Content-Length: %d" % declared)
            payload = b"" if method == "HEAD" else sent
        head.append("Connection: close")
        raw = ("\r\n".join(head) + "\r\n\r\n").encode("latin-1") + payload
        r = http.client.HTTPResponse(_FakeSock(raw, int(knobs.get("piece", 8192))), method=method, url=url)
        r.begin()
        r.url = url                 # what urllib's handlers add
        r.msg = r.reason
        return r

    def _error(self, url, code, reason):
        hdrs = email.message.Message()
        hdrs["Content-Length"] = "0"
        return urllib.error.HTTPError(url, code, reason, hdrs, io.BytesIO(b""))

    def request(self, url, method):
        from . import simfs
        parts = urllib.parse.urlsplit(url)
        path = posixpath.normpath("/sim/" + urllib.parse.unquote(parts.path).lstrip("/"))
        fault = self._take_fault()
        if fault == "refused":
            self.trace.append((method, path, "refused"))
            raise urllib.error.URLError(ConnectionRefusedError(111, "Connection refused"))
        if fault == "timeout":
            self.trace.append((method, path, "timeout"))
            raise urllib.error.URLError(socket.timeout("timed out"))
        if fault == "http503":
            self.trace.append((method, path, "503"))
            raise self._error(url, 503, "Service Unavailable")
        if fault == "disconnect":
            self.trace.append((method, path, "disconnect"))
            raise http.client.RemoteDisconnected("Remote end closed connection without response")
        fs = self.ctx.fs
        if not simfs.under_root(path):
            self.trace.append((method, path, "404"))
            raise self._error(url, 404, "Not Found")
        if path in fs.files:
            body = fs.get(path)
            self.trace.append((method, path, "200-cut" if fault == "body_cut" else "200"))
            return self._response(url, method, 200, "OK", body, cut=(fault == "body_cut"))
        if path in fs.dirs and self.knobs.get("autoindex"):
            self.trace.append((method, path, "200-index"))
            return self._response(url, method, 200, "OK", b"<html><body>Index of %s</body></html>" % parts.path.encode("utf-8", "replace"))
        self.trace.append((method, path, "404"))
        raise self._error(url, 404, "Not Found")


def _sim_open(self, fullurl, data=None, *a, **kw):
    from .seams import CTX, HarnessError
    if isinstance(fullurl, urllib.request.Request):
        url, method = fullurl.full_url, fullurl.get_method()
    else:
        url, method = str(fullurl), ("POST" if data is not None else "GET")
    CTX.urlopen_calls += 1
    host = urllib.parse.urlsplit(url).hostname
    peer = getattr(CTX, "net", None)
    if host != HOST or peer is None or not CTX.cfg.get("remote"):
        raise HarnessError("network seam reached outside a simulated-network run: %r" % (url,))
    return peer.request(url, method)


def interpose():
    if _orig_open[0] is None:
        _orig_open[0] = urllib.request.OpenerDirector.open
        urllib.request.OpenerDirector.open = _sim_open


def url_of(scheme, simpath):
    """/sim/c/x -> http://sim.example/c/x (trailing slash kept)"""
    tail = simpath[len("/sim"):]
    return "%s://%s%s" % (scheme, HOST, urllib.parse.quote(tail))


def sim_of(url):
    """the reverse, normalised; None if `url` is not on the simulated host"""
    parts = urllib.parse.urlsplit(url)
    if parts.hostname != HOST:
        return None
    return posixpath.normpath("/sim/" + urllib.parse.unquote(parts.path).lstrip("/"))
