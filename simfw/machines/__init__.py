from . import ci, im, mf, ti, cd  # noqa: F401
