"""C03 - rpms / modules / extra-files manifests survive a write/read cycle.

The manifest is whatever a history of add calls produced; at arbitrary points it is persisted, the
node restarts from SimFS (path / handle / loads) and keeps adding to the restarted object: the
reloaded payload must be a live, extendable structure that behaves as before the restart.
"""
from .. import gen_mf
from ..kits import KITS
from ..pools import pick

ID = "C03"
LEVEL = "exploration"
RUNS = {"quick": 4500, "thorough": 300000}
REQUIRED_FAULTS = ["F9.restart_path", "F9.restart_handle", "F9.restart_loads"]
MACHINES = ["M-RP", "M-MO", "M-XF"]


def generate(rng, tier, idx):
    machine = MACHINES[idx % 3]
    n = rng.randint(3, 16 if tier == "quick" else 40)
    ops = gen_mf.history(rng, machine, n, invalid=0.08, restarts=0.2)
    path = gen_mf.FILES[machine]
    ops.append({"op": "dump", "path": path})
    ops.append({"op": "restart", "path": path, "via": pick(rng, ["path", "handle", "loads"]), "offset": rng.randint(0, 999)})
    ops.append({"op": "restart", "path": path, "via": "path"})
    if rng.random() < 0.35:
        # the reader goes on adding WITHOUT saving; another reader (and then a third) opens the same, unchanged file: what it
        # gets is what is on disk, not what the first reader holds in memory
        for _ in range(rng.randint(1, 2)):
            ops.append(gen_mf.ADDERS[machine](rng, invalid=0))
            ops.append({"op": "restart", "path": path, "via": pick(rng, ["path", "path", "handle"]), "offset": rng.randint(0, 99)})
    _machine = machine
    if rng.random() < 0.25:
        # a bystander object with other content lives next to the main one
        b_build, b_final = KITS[_machine].bystander(rng, tier)
        cut = rng.randint(1, len(ops))
        ops = ops[:cut] + b_build + ops[cut:] + b_final + [o for o in ops[-2:] if o["op"] in ("dump", "restart")]
    return {"machine": machine, "cfg": {}, "ops": ops}
