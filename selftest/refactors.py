#!/venv/bin/python
"""No-false-alarm self-test: PROPERTY-PRESERVING changes to a scratch copy of /repo (refactorings, other I/O routes,
other internal representations, other messages).  The repository's tests must stay green AND every quick check must
exit 0 (no VIOLATION, no exit 2).   Usage: selftest/refactors.py [--only NAME] [--jobs N]   Writes selftest/REFACTORS.md"""
import argparse
import json
import os
import shutil
import subprocess
import sys
import tempfile
from concurrent.futures import ThreadPoolExecutor

VERIF = os.path.dirname(os.path.dirname(os.path.abspath(__file__)))
REPO = "/repo"
CM, CI, IM, RP, TI, CD, DI = ("productmd/common.py", "productmd/composeinfo.py", "productmd/images.py", "productmd/rpms.py",
                              "productmd/treeinfo.py", "productmd/compose.py", "productmd/discinfo.py")

REFACTORS = [
    {"name": "atomic-write-dump+scandir+io.open", "edits": [
        (CM, """        parser = self._get_parser()
        self.serialize(parser)
        with open_file_obj(f, "w") as f:
            self.build_file(parser, f)
""", """        parser = self._get_parser()
        self.serialize(parser)
        if isinstance(f, six.string_types) and not f.startswith(("http://", "https://", "ftp://")):
            import tempfile
            fd, tmp = tempfile.mkstemp(prefix=".tmp-", dir=os.path.dirname(f) or ".")
            try:
                with os.fdopen(fd, "w") as fo:
                    self.build_file(parser, fo)
                os.replace(tmp, f)
            except BaseException:
                try:
                    os.unlink(tmp)
                except OSError:
                    pass
                raise
            return
        with open_file_obj(f, "w") as f:
            self.build_file(parser, f)
"""),
        (CD, """            for i in os.listdir(compose_path):""", """            for i in [e.name for e in os.scandir(compose_path)]:"""),
        (TI, """    with open(path, "rb") as fo:""", """    import io
    with io.open(path, "rb") as fo:"""),
    ]},
    {"name": "validate-caches-method-names-per-class-object", "edits": [
        (CM, """        method_names = sorted([i for i in dir(self) if i.startswith("_validate") and callable(getattr(self, i))])
        for method_name in method_names:""", """        cache = MetadataBase.__dict__.get("_vcache")
        if cache is None:
            cache = {}
            MetadataBase._vcache = cache
        cls = type(self)
        if cls not in cache:
            cache[cls] = sorted([i for i in dir(cls) if i.startswith("_validate") and callable(getattr(cls, i))])
        method_names = cache[cls]
        for method_name in method_names:"""),
    ]},
    {"name": "rpms-add-checks-reordered+messages-changed", "edits": [
        (RP, """        if arch not in productmd.common.RPM_ARCHES:
            raise ValueError("Arch not found in RPM_ARCHES: %s" % arch)

        if arch in ["src", "nosrc"]:
            raise ValueError("Source arch is not allowed. Map source files under binary arches.")

        if category not in SUPPORTED_CATEGORIES:
            raise ValueError("Invalid category value: %s" % category)
""", """        if category not in SUPPORTED_CATEGORIES:
            raise ValueError("unsupported RPM category %r" % (category,))

        if arch in ("src", "nosrc") or arch not in productmd.common.RPM_ARCHES:
            raise ValueError("%r is not a binary tree architecture" % (arch,))
"""),
    ]},
    {"name": "dumps-independent-of-dump+ensure_ascii-false", "edits": [
        (CM, """        io = six.StringIO()
        self.dump(io)
        io.seek(0)
        return io.read()""", """        self.validate()
        parser = self._get_parser()
        self.serialize(parser)
        out = six.StringIO()
        self.build_file(parser, out)
        return out.getvalue()"""),
        (CM, """        json.dump(parser, f, indent=4, sort_keys=True, separators = (",", ": "))""", """        f.write(json.dumps(parser, indent=4, sort_keys=True, separators=(",", ": "), ensure_ascii=False))"""),
    ]},
    {"name": "compose-accessors-dict-cache", "edits": [
        (CD, """        if self._rpms is not None:
            return self._rpms

        paths = [
            "metadata/rpms.json",
            "metadata/rpm-manifest.json",
        ]
        self._rpms = self._load_metadata(paths, productmd.rpms.Rpms)
        return self._rpms""", """        cache = self.__dict__.setdefault("_cache", {})
        if "rpms" not in cache:
            cache["rpms"] = self._load_metadata(["metadata/rpms.json", "metadata/rpm-manifest.json"], productmd.rpms.Rpms)
        return cache["rpms"]"""),
    ]},
    {"name": "images-identity-scan-via-index+early-return", "edits": [
        (IM, """            for checkvar in self.images:
                for checkarch in self.images[checkvar]:
                    for curimg in self.images[checkvar][checkarch]:
                        if identify_image(curimg) == identify_image(image) and curimg.checksums != image.checksums:
                            raise ValueError("Image {0} shares all UNIQUE_IMAGE_ATTRIBUTES with "
                                             "image {1}! This is forbidden.".format(image, curimg))""", """            wanted = identify_image(image)
            everything = [i for arches in self.images.values() for cell in arches.values() for i in cell]
            clash = [i for i in everything if identify_image(i) == wanted and i.checksums != image.checksums]
            if clash:
                raise ValueError("identity clash between %r and %r" % (image, clash[0]))"""),
    ]},
    {"name": "checksum-chunks-of-64k", "edits": [
        (TI, """            chunk = fo.read(1024**2)""", """            chunk = fo.read(64 * 1024)"""),
    ]},
    {"name": "payload-mappings-are-ordereddicts", "edits": [
        (RP, """        arches = self.rpms.setdefault(variant, {})
        srpms = arches.setdefault(arch, {})
        rpms = srpms.setdefault(srpm_nevra, {})""", """        from collections import OrderedDict
        arches = self.rpms.setdefault(variant, OrderedDict())
        srpms = arches.setdefault(arch, OrderedDict())
        rpms = srpms.setdefault(srpm_nevra, OrderedDict())"""),
        (IM, """        self.checksums = {}             #: (*str*)""", """        import collections
        self.checksums = collections.OrderedDict()             #: (*str*)"""),
    ]},
    {"name": "discinfo-trailing-newline+variant-add-local-names", "edits": [
        (DI, """        f.write("\\n".join(parser))""", """        f.write("\\n".join(parser) + "\\n")"""),
    ]},
    {"name": "images-load-replaces-content+rpms-checked-arch-cache+discinfo-all-constant-copied", "edits": [
        (IM, """        self.compose.deserialize(data["payload"])
        for variant in data["payload"]["images"]:""", """        self.compose.deserialize(data["payload"])
        self.images = {}
        for variant in data["payload"]["images"]:"""),
        (RP, """        if arch not in productmd.common.RPM_ARCHES:
            raise ValueError("Arch not found in RPM_ARCHES: %s" % arch)

        if arch in ["src", "nosrc"]:
            raise ValueError("Source arch is not allowed. Map source files under binary arches.")

        if category""", """        if arch not in _BINARY_ARCHES_SEEN:
            if arch not in productmd.common.RPM_ARCHES:
                raise ValueError("Arch not found in RPM_ARCHES: %s" % arch)

            if arch in ["src", "nosrc"]:
                raise ValueError("Source arch is not allowed. Map source files under binary arches.")
            _BINARY_ARCHES_SEEN.add(arch)

        if category"""),
        (RP, """class Rpms(productmd.common.MetadataBase):""", """_BINARY_ARCHES_SEEN = set()


class Rpms(productmd.common.MetadataBase):"""),
        (DI, """        if not disc_numbers or disc_numbers == "ALL":
            self.disc_numbers = ["ALL"]""", """        if not disc_numbers or disc_numbers == "ALL":
            self.disc_numbers = list(_ALL)"""),
        (DI, """class DiscInfo(productmd.common.MetadataBase):""", """_ALL = ("ALL", )


class DiscInfo(productmd.common.MetadataBase):"""),
    ]},
    {"name": "treeinfo-dump-renders-to-a-string-first+json-dump-via-dumps-string", "edits": [
        (TI, """        parser = self._get_parser()
        self.serialize(parser, main_variant=main_variant)
        with productmd.common.open_file_obj(f, "w") as f:
            self.build_file(parser, f)
""", """        parser = self._get_parser()
        self.serialize(parser, main_variant=main_variant)
        buf = six.StringIO()
        self.build_file(parser, buf)
        text = buf.getvalue()
        with productmd.common.open_file_obj(f, "w") as f:
            f.write(text)
"""),
        (CM, """        with open_file_obj(f, "w") as f:
            self.build_file(parser, f)
""", """        text = json.dumps(parser, indent=4, sort_keys=True, separators=(",", ": ")) if isinstance(parser, dict) else None
        with open_file_obj(f, "w") as f:
            if text is None:
                self.build_file(parser, f)
            else:
                f.write(text)
"""),
    ]},
    {"name": "extra-files-size-must-be-an-integer+discinfo-refuses-multi-line-text-in-validate", "edits": [
        ("productmd/extra_files.py", """        if not isinstance(checksums, dict):
            raise TypeError("Checksums must be a dict.")
""", """        if not isinstance(checksums, dict):
            raise TypeError("Checksums must be a dict.")

        if isinstance(size, bool) or not isinstance(size, six.integer_types):
            raise TypeError("Size must be an integer.")
"""),
        ("productmd/extra_files.py", """import json
""", """import json

import six
"""),
        (DI, """    def _validate_description(self):
        self._assert_not_blank("description")
        self._assert_type("description", [str])
""", """    def _validate_description(self):
        self._assert_not_blank("description")
        self._assert_type("description", [str])
        if self.description != self.description.strip() or len(self.description.splitlines()) != 1:
            raise ValueError("DiscInfo: description must be a single line without surrounding blanks")
"""),
    ]},
    {"name": "variant-add-validates-first-on-the-would-be-parent+top-level-parent-cleared-in-wrapper", "edits": [
        (CI, """        old_parent = variant.parent
        try:
            self._add(variant, variant_id=variant_id)
        except Exception:
            # a refused variant must not stay re-parented
            variant.parent = old_parent
            raise""", """        old_parent = variant.parent
        snapshot = dict(self.variants)
        try:
            self._add(variant, variant_id=variant_id)
        except Exception:
            # a refused variant must not stay re-parented, nor registered
            variant.parent = old_parent
            self.variants.clear()
            self.variants.update(snapshot)
            raise"""),
    ]},
    {"name": "checksum-unbuffered-readinto-loop", "edits": [
        (TI, """    with open(path, "rb") as fo:
        while True:
            chunk = fo.read(1024**2)
            if not chunk:
                break
            checksum.update(chunk)""", """    buf = bytearray(1024**2)
    view = memoryview(buf)
    with open(path, "rb", buffering=0) as fo:
        while True:
            n = fo.readinto(buf)
            if not n:
                break
            checksum.update(view[:n])"""),
    ]},
]


def run(r, tier):
    d = tempfile.mkdtemp(prefix="pmd-ref-")
    try:
        dst = os.path.join(d, "repo")
        shutil.copytree(REPO, dst, ignore=shutil.ignore_patterns(".git", "__pycache__", "*.pyc", "*.egg-info"))
        for fname, old, new in r["edits"]:
            p = os.path.join(dst, fname)
            s = open(p).read()
            if s.count(old) != 1:
                return {"name": r["name"], "status": "PATCH-FAILED", "detail": "%s: %d occurrences" % (fname, s.count(old))}
            open(p, "w").write(s.replace(old, new))
        env = dict(os.environ, PYTHONPATH=dst, PYTHONDONTWRITEBYTECODE="1", PYTHONHASHSEED="0")
        t = subprocess.run(["/venv/bin/python", "-m", "pytest", "-q", "-p", "no:cacheprovider", "tests"], cwd=dst, env=env, stdout=subprocess.PIPE, stderr=subprocess.STDOUT)
        if t.returncode != 0:
            return {"name": r["name"], "status": "TESTS-FAIL", "detail": t.stdout.decode()[-300:]}
        claimed = [c["property_id"] for c in json.load(open(os.path.join(VERIF, "MANIFEST.json")))["checks"]]
        alarms = []
        for p in claimed:
            env = dict(os.environ, VERIF_REPO=dst, VERIF_REPLAY_DIR=os.path.join(d, "replays"), VERIF_EVIDENCE_DIR=os.path.join(d, "evidence"))
            c = subprocess.run([os.path.join(VERIF, "bin", "check"), p, "--tier", tier], cwd=VERIF, env=env, stdout=subprocess.PIPE, stderr=subprocess.STDOUT)
            if c.returncode != 0:
                out = c.stdout.decode("utf-8", "replace")
                keys = [l for l in out.split("\n") if l.startswith(("violation cause keys", "HARNESS-ERROR"))]
                alarms.append("%s rc=%d %s" % (p, c.returncode, (keys[0] if keys else out[-200:])[:260]))
        return {"name": r["name"], "status": "QUIET" if not alarms else "FALSE-ALARM", "detail": "; ".join(alarms)}
    finally:
        shutil.rmtree(d, ignore_errors=True)


def main():
    ap = argparse.ArgumentParser()
    ap.add_argument("--only")
    ap.add_argument("--jobs", type=int, default=3)
    ap.add_argument("--tier", default="quick")
    args = ap.parse_args()
    rs = [r for r in REFACTORS if not args.only or args.only in r["name"]]
    with ThreadPoolExecutor(max_workers=args.jobs) as ex:
        results = list(ex.map(lambda r: run(r, args.tier), rs))
    bad = 0
    lines = ["# No-false-alarm self-test (%s tier)" % args.tier, "", "Property-preserving changes; the 90 tests stay green and all 16 quick checks must exit 0.", "",
             "| change | result | detail |", "|---|---|---|"]
    for r in results:
        print("%-60s %-12s %s" % (r["name"], r["status"], r.get("detail", "")[:300]))
        if r["status"] != "QUIET":
            bad += 1
        lines.append("| %s | %s | %s |" % (r["name"], r["status"], r.get("detail", "").replace("|", "/")[:300]))
    if not args.only:
        open(os.path.join(VERIF, "selftest", "REFACTORS.md"), "w").write("\n".join(lines) + "\n")
    print("%d refactorings, %d raised an alarm" % (len(results), bad))
    return 1 if bad else 0


if __name__ == "__main__":
    sys.exit(main())
