"""C05 - older format versions are upgraded faithfully and idempotently.

The simulation reading: the durable state was written by an OLDER INCARNATION of the software and the node
restarts on it.  Old state comes from (1) independent down-converters per format applied to a document the
history really wrote (composeinfo 1.1/1.0/0.3/0.2, images 1.1/1.0, rpms 1.1/1.0/0.3, treeinfo 1.1/1.0/0.3/0.0) and
(2) the fixture corpus shipped in tests/ (67 .treeinfo, images, composeinfo, 77 .discinfo).  After the restart:
same facts under the documented mapping (generated content), written back as a current-version file with the
proper header type, reload identical, second write byte-identical; then the history continues (an upgrade must
not wedge the object) and the cycle repeats.
"""
import os

from ..kits import KITS
from ..pools import pick, subset
from .. import gen_im, gen_mf, pools

ID = "C05"
LEVEL = "exploration"
RUNS = {"quick": 6400, "thorough": 100000}
REQUIRED_FAULTS = ["F8.older_format_on_disk"]
MACHINES = ["M-CI", "M-IM", "M-RP", "M-TI", "M-DI"]
ASSUMPTIONS = ["rpms 0.3 and composeinfo < 0.3 have no format document in the repository: their down-converters follow the property text "
               "and the shape the reader consumes, so for those two versions the 'same facts' oracle is less independent",
               "pre-productmd (0.0) treeinfo and the fixture corpus are held to the idempotence oracle only (no 'same facts' where the mapping is undocumented)"]

_CORPUS = None


def corpus():
    global _CORPUS
    if _CORPUS is None:
        repo = os.environ.get("VERIF_REPO", "/repo")
        out = []
        t = os.path.join(repo, "tests")
        for sub, machine in (("treeinfo", "M-TI"), ("discinfo", "M-DI"), ("images", "M-IM")):
            d = os.path.join(t, sub)
            if os.path.isdir(d):
                for f in sorted(os.listdir(d)):
                    if os.path.isfile(os.path.join(d, f)):
                        out.append((machine, "%s/%s" % (sub, f)))
        for f in ("compose/compose/metadata/composeinfo.json", "compose-legacy/1.0/metadata/composeinfo.json"):
            if os.path.isfile(os.path.join(t, f)):
                out.append(("M-CI", f))
        _CORPUS = out
    return _CORPUS


def corpus_case(rng, idx):
    c = corpus()
    machine, f = c[(idx // 8) % len(c)]
    kit = KITS[machine]
    ops = [{"op": "corpus_load", "file": f, "path": kit.path},
           {"op": "restart", "path": kit.path, "via": pick(rng, ["path", "handle", "loads"]), "offset": rng.randint(0, 300)},
           {"op": "dump", "path": kit.path},
           {"op": "restart", "path": kit.path, "via": pick(rng, ["path", "handle", "loads"]), "offset": rng.randint(0, 300)}]
    return {"machine": machine, "cfg": kit.cfg(rng), "ops": ops}


def pre_productmd_case(rng):
    """a pre-productmd .treeinfo as third parties wrote them (not derived from a file of ours)"""
    arch = pick(rng, ["x86_64", "ppc64", "s390x", "i386", "src", "src"])
    g = {"family": pick(rng, ["Spacewalk", "My Product", "Tools", "\u00dcn\u00efcode Linux", "OS", "Fedora", "Fedora"]), "version": pick(rng, ["7.0", "21", "8", "1.2.3"]),
         "arch": arch, "variant": pick(rng, ["Server", "Client", "AS", "Tools"]),
         "timestamp": pick(rng, ["1417653911.68", "1417653911", "1.5", "12345"])}
    g["name"] = "%s %s" % (g["family"], g["version"])
    r = rng.random()
    if r < 0.3:
        g["packagedir"] = ""
    elif r < 0.7:
        g["packagedir"] = pick(rng, ["Packages", "Server", "RPMS/", "a/b/c", "."])
    r = rng.random()
    if r < 0.5:
        g["repository"] = pick(rng, ["repo/os", "Server", ".", "a/b/", "repo"])
    r = rng.random()
    if r < 0.3:
        n = rng.randint(1, 4)
        g["discnum"] = str(n)
        if rng.random() < 0.5:
            g["totaldiscs"] = str(n + rng.randint(0, 3))
    elif r < 0.4:
        g["totaldiscs"] = str(rng.randint(1, 4))
    sections = {}
    if arch != "src" and rng.random() < 0.5:
        sections["images-%s" % arch] = {"kernel": "images/pxeboot/vmlinuz", "boot.iso": "images/boot.iso"}
    if rng.random() < 0.3:
        sections["stage2"] = {"mainimage": "images/install.img"}
    ops = [{"op": "ti_pre_productmd_synth", "path": "/sim/d/.treeinfo", "general": g, "sections": sections, "via": pick(rng, ["path", "handle", "loads"])}]
    return {"machine": "M-TI", "cfg": {"simset": pick(rng, ["insertion", "shuffle"])}, "ops": ops}


def generate(rng, tier, idx):
    if idx % 8 == 7:
        return corpus_case(rng, idx)
    if idx % 8 == 6:
        return pre_productmd_case(rng)
    if idx % 8 == 5:
        # the recorded reference behaviour of the header-less reader's release-specific rules
        return {"machine": "M-TI", "cfg": {"simset": pick(rng, ["insertion", "shuffle"])},
                "ops": [{"op": "ti_golden", "path": "/sim/d/.treeinfo", "k": rng.randrange(10 ** 6), "via": pick(rng, ["path", "handle", "loads"])}
                        for _ in range(rng.randint(1, 3))]}
    which = idx % 8
    if which in (0, 1):
        kit = KITS["M-CI"]
        K = kit.content(rng, tier)
        # keep what the older formats can express
        ops = kit.build(K, rng)
        down = {"op": "ci_downgrade", "path": kit.path, "version": pick(rng, ["1.1", "1.0", "1.0", "0.3", "0.3", "0.2", "0.1"])}
    elif which == 2:
        kit = KITS["M-IM"]
        K = gen_im.gen_c10_content(rng)
        ops = gen_im.build_ops(K, rng)
        variants = sorted(set(v for v, _, _ in K["cells"]))
        down = {"op": "im_downgrade", "path": kit.path, "version": pick(rng, ["1.0", "1.1"]),
                "src_variants": pick(rng, ["all", subset(rng, variants, 0, len(variants))])}
    elif which == 3:
        kit = KITS["M-RP"]
        ops = gen_mf.rpms_canonical_history(rng)
        K = {"compose": ops[0]["compose"], "adds": [o for o in ops if o["op"] == "add"]}
        if rng.random() < 0.35:
            for o in ops:
                if o["op"] == "add":
                    o["op"] = "model_add"
            ops.append({"op": "model_dump", "path": kit.path})
            ops.append({"op": "rp_downgrade", "path": kit.path, "version": pick(rng, ["0.3", "0.3", "1.0", "1.1"]), "decorate": pick(rng, [None, None, "rpm", "dir"])})
            ops.append({"op": "restart", "path": kit.path, "via": pick(rng, ["path", "handle", "loads"]), "offset": rng.randint(0, 500)})
            ops.append(kit.dump_op(K, rng))
            ops.append({"op": "restart", "path": kit.path, "via": "path"})
            return {"machine": kit.machine, "cfg": kit.cfg(rng), "ops": ops}
        down = {"op": "rp_downgrade", "path": kit.path, "version": pick(rng, ["0.3", "0.3", "1.0", "1.1"]), "decorate": pick(rng, [None, None, "rpm", "dir"])}
    else:
        kit = KITS["M-TI"]
        K = kit.content(rng, tier)
        ops = kit.build(K, rng)
        down = {"op": "ti_downgrade", "path": kit.path, "version": pick(rng, ["1.1", "1.0", "0.3", "0.3", "0.0"])}
        if rng.random() < 0.2:
            # an older file gives its digests without naming the algorithm: the reader goes by their length
            for k in range(rng.randint(1, 3)):
                ops.append({"op": "ti_checksum_add", "path": "images/old%d.img" % k, "ctype": pick(rng, ["md5", "sha1", "sha256"]), "value": pools.hexstr(rng, 64)})
            down = {"op": "ti_bare_digests", "path": kit.path, "plan": [pick(rng, ["bare32", "bare40", "bare64", "keep"]) for _ in range(rng.randint(1, 4))]}
    ops.append(kit.dump_op(K, rng))
    ops.append(down)
    if kit.machine != "M-TI" and rng.random() < 0.3:
        # old documents were not written by this library: the key order of their JSON objects is arbitrary
        ops.append({"op": "fs_reorder_json", "path": kit.path, "seed": rng.randrange(1 << 30), "how": pick(rng, ["shuffle", "reverse"])})
    ops.append({"op": "restart", "path": kit.path, "via": pick(rng, ["path", "handle", "loads"]), "offset": rng.randint(0, 500)})
    if kit.machine == "M-IM" and K["imgs"] and rng.random() < 0.5:
        # the upgraded object must behave like a current one: a colliding image (same identity, other checksums) is refused
        used = sorted(set(i for _, _, i in K["cells"]))
        if used:
            clone = dict(K["imgs"][pick(rng, used)])
            clone["checksums"] = {"md5": "0" * 32}
            clone["path"] = clone["path"] + ".clash"
            if down.get("version") == "1.0":
                clone["subvariant"] = ""
            ops.append({"op": "img_new", "iid": 7000, "attrs": clone})
            ops.append({"op": "img_add", "variant": K["cells"][0][0], "arch": K["cells"][0][1], "iid": 7000})
    for cycle in range(rng.randint(1, 3)):
        if rng.random() < 0.5:
            ops.append(kit.mutation(K, rng))
        ops.append(kit.dump_op(K, rng))
        ops.append({"op": "restart", "path": kit.path, "via": pick(rng, ["path", "handle", "loads"]), "offset": rng.randint(0, 500)})
    return {"machine": kit.machine, "cfg": kit.cfg(rng), "ops": ops}
