"""Generators for M-CI: abstract compose descriptions and the op histories that build them."""
from . import pools
from .pools import pick, subset

DASH_PREFIXES = ["Srv", "Wks", "Dsk"]

PATH_VALUES = ["Server/x86_64/os", "compose/Server/os/Packages", "a/b", ".", "ünï/côde", "x" * 50, "Packages",
               "os/Packages/", "a//b", "./x", "x/../y", "/abs/path", " spaced ", "trailing/.", "back\\slash"]


def gen_release_for_variant(rng):
    r = pools.release(rng, layered=True)
    return r


def gen_content(rng, max_vars=7, max_depth=3, dashed=True, paths=True, free_version=0.2):
    rel = pools.release(rng, free_version=free_version)
    K = {"release": rel, "base_product": pools.base_product(rng), "compose": pools.compose(rng, rel), "vars": []}
    nvars = rng.randint(1, max_vars)
    ids = rng.sample(pools.VARIANT_IDS, min(nvars, len(pools.VARIANT_IDS)))
    for vid_name in ids:
        n = len(K["vars"])          # K["vars"][i]["n"] == i always
        if n >= max_vars:
            break
        # choose a parent: None (top) or an earlier variant of depth < max_depth
        cands = [i for i, v in enumerate(K["vars"]) if v["depth"] < max_depth and not v["dashed"]]
        parent = None
        if cands and rng.random() < 0.55:
            parent = pick(rng, cands)
        if K["vars"] and rng.random() < 0.25:
            # an id may be used again at another place of the forest (the UID is what must be unique)
            reuse = pick(rng, [x["id"] for x in K["vars"] if not x["dashed"]] or [vid_name])
            sibs = [x["id"] for x in K["vars"] if x["parent"] == parent]
            new_uid = reuse if parent is None else "%s-%s" % (K["vars"][parent]["uid"], reuse)
            if reuse not in sibs and new_uid not in [x["uid"] for x in K["vars"]]:
                vid_name = reuse
        sibs_now = [x["id"] for x in K["vars"] if x["parent"] == parent]
        uid_now = vid_name if parent is None else "%s-%s" % (K["vars"][parent]["uid"], vid_name)
        if vid_name in sibs_now or uid_now in [x["uid"] for x in K["vars"]]:
            continue            # (an id re-used earlier may meet its own fresh draw: sibling ids and UIDs stay unique)
        v = {"n": n, "id": vid_name, "parent": parent, "dashed": False}
        if parent is None:
            v["depth"] = 1
            v["arches"] = sorted(subset(rng, pools.ARCHES, 1, 4))
            if rng.random() < 0.15:
                # the source pseudo-architecture listed explicitly (legal, unusual) / a name outside the usual handful
                v["arches"] = sorted(set(v["arches"] + [pick(rng, ["src", "src", "ppc64", "noarch", "ia64"])]))
            if dashed and rng.random() < 0.2:
                pre = pick(rng, DASH_PREFIXES)
                tops_plain = [x["id"] for x in K["vars"] if x["parent"] is None and not x["dashed"]]
                if tops_plain and rng.random() < 0.5:
                    # the dashed UID borrows the name of a variant that IS part of the compose ("Server" next to
                    # "Server-Tools"): it then sorts between that variant and its children
                    pre = pick(rng, tops_plain)
                if (pre + vid_name) not in [x["id"] for x in K["vars"]] and (pre + "-" + vid_name) not in [x["uid"] for x in K["vars"]]:
                    v["id"] = pre + vid_name
                    v["uid"] = pre + "-" + vid_name
                    v["dashed"] = True
                else:
                    v["uid"] = vid_name
            else:
                v["uid"] = vid_name
        else:
            p = K["vars"][parent]
            v["depth"] = p["depth"] + 1
            v["arches"] = sorted(subset(rng, p["arches"], 1, len(p["arches"])))
            v["uid"] = "%s-%s" % (p["uid"], vid_name)
        v["name"] = pick(rng, pools.NAMES)
        v["type"] = pick(rng, pools.CI_VARIANT_TYPES)
        v["release"] = gen_release_for_variant(rng) if v["type"] == "layered-product" else None
        v["paths"] = {}
        if paths:
            for cat in subset(rng, pools.CI_PATH_CATS, 0, rng.choice([2, 5, 14])):
                arches = list(v["arches"])
                if rng.random() < 0.15:
                    arches.append(pick(rng, [a for a in pools.ARCHES if a not in v["arches"]] or ["ia64"]))   # foreign arch: not stored
                t = {}
                for a in subset(rng, arches, 1, len(arches)):
                    t[a] = "" if rng.random() < 0.08 else "%s/%s/%s" % (v["uid"], a, pick(rng, PATH_VALUES))
                v["paths"][cat] = t
        K["vars"].append(v)
        if v["parent"] is not None and K["vars"][v["parent"]]["parent"] is None and rng.random() < 0.15 and len(K["vars"]) < max_vars:
            # a plain top-level variant whose id is the CONCATENATION of a parent id and its child's id ("Serveroptional"
            # next to Server > optional): equal to the child's UID with the dash removed
            cid = K["vars"][v["parent"]]["id"] + v["id"]
            if cid not in [x["id"] for x in K["vars"]] and cid not in [x["uid"] for x in K["vars"]]:
                K["vars"].append({"n": len(K["vars"]), "id": cid, "uid": cid, "parent": None, "dashed": False, "depth": 1,
                                  "arches": sorted(subset(rng, pools.ARCHES, 1, 3)), "name": pick(rng, pools.NAMES),
                                  "type": pick(rng, ["variant", "optional"]), "release": None, "paths": {}})
        if v["dashed"] and rng.random() < 0.5 and len(K["vars"]) < max_vars:
            # a sibling that sorts AFTER the dashed UID ("Srv-Server" < "SrvA1": '-' < 'A') but BEFORE its id
            # ("SrvA1" < "SrvServer"): id order and UID order disagree
            pre = v["uid"].split("-")[0]
            sid = pre + pick(rng, ["A1", "0x", "B"])
            if sid not in [x["id"] for x in K["vars"]]:
                n2 = len(K["vars"])
                K["vars"].append({"n": n2, "id": sid, "uid": sid, "parent": None, "dashed": False, "depth": 1,
                                  "arches": sorted(subset(rng, pools.ARCHES, 1, 3)), "name": pick(rng, pools.NAMES),
                                  "type": pick(rng, ["variant", "optional", "addon"]), "release": None, "paths": {}})
    return K


def build_ops(K, rng, slot=0, vid_base=0, noise=0.0, permute=True):
    """Op history that builds K in slot `slot`.  Unordered parts (variants at every level, arches,
    path tables) are inserted in a PRNG-chosen order; `noise` interleaves refused / redundant calls."""
    ops = []
    sl = {"slot": slot} if slot else {}
    init = {"op": "ci_init", "release": dict(K["release"]), "compose": dict(K["compose"])}
    init.update(sl)
    if K["release"]["is_layered"] or rng.random() < 0.3:
        init["base_product"] = dict(K["base_product"])
    ops.append(init)
    body = []
    order = list(range(len(K["vars"])))
    if permute:
        rng.shuffle(order)
    new_ops, add_ops, path_ops = [], [], []
    for i in order:
        v = K["vars"][i]
        arches = list(v["arches"])
        if permute:
            rng.shuffle(arches)
        o = {"op": "var_new", "vid": vid_base + v["n"], "id": v["id"], "uid": v["uid"], "name": v["name"], "type": v["type"],
             "arches": arches}
        if rng.random() < 0.3:
            o["arches_inplace"] = True
        o.update(sl)
        if v["release"]:
            o["release"] = dict(v["release"])
        new_ops.append(o)
        a = {"op": "var_add", "var": vid_base + v["n"], "into": "top" if v["parent"] is None else vid_base + v["parent"]}
        a.update(sl)
        add_ops.append(a)
        items = [(cat, arch, val) for cat, t in v["paths"].items() for arch, val in t.items()]
        if permute:
            rng.shuffle(items)
        whole = [cat for cat in sorted(v["paths"]) if v["paths"][cat] and rng.random() < 0.25]
        for cat in whole:
            # this category is assigned as a whole table instead of being filled entry by entry
            p = {"op": "var_path_table", "var": vid_base + v["n"], "cat": cat, "table": dict(v["paths"][cat])}
            p.update(sl)
            path_ops.append(p)
        items = [it for it in items if it[0] not in whole]
        for cat, arch, val in items:
            p = {"op": "var_path", "var": vid_base + v["n"], "cat": cat, "arch": arch, "value": val}
            p.update(sl)
            path_ops.append(p)
    # interleave: every var_new first (adds need both objects), then adds and paths shuffled together
    ops.extend(new_ops)
    rest = add_ops + path_ops
    if permute:
        rng.shuffle(rest)
    placed = []
    for o in rest:
        if noise and rng.random() < noise:
            extra = noise_op(K, rng, slot, vid_base, placed)
            ops.extend(extra if isinstance(extra, list) else [extra])
        ops.append(o)
        if o["op"] == "var_add":
            placed.append(o["var"] - vid_base)
    return ops


def noise_op(K, rng, slot, vid_base, placed=()):
    """A redundant or refused call that must not change the content."""
    sl = {"slot": slot} if slot else {}
    r = rng.random()
    if r < 0.25:
        o = {"op": "ci_set", "sec": "compose", "field": "respin", "value": K["compose"]["respin"]}
    elif r < 0.4:
        o = {"op": "ci_set", "sec": "release", "field": "name", "value": K["release"]["name"]}
    elif r < 0.55:
        # a variant whose id is not a legal id (everything else about it is in order) is offered to the top container
        bad = pick(rng, ["S\u00e9rver", "Server\u00b2", "\uff33erver", "\u0421\u0435\u0440\u0432\u0435\u0440", "x\u0663", "a b", "x_y", "x.y", "Zed\n", "Z-ed"])
        vid = vid_base + 700 + rng.randint(0, 90)
        new = {"op": "var_new", "vid": vid, "id": bad, "uid": bad, "name": "Odd id", "type": "variant", "arches": ["x86_64"]}
        add = {"op": "var_add", "var": vid, "into": "top"}
        new.update(sl)
        add.update(sl)
        return [new, add]
    elif r < 0.8 or len(K["vars"]) < 2 or not placed:
        o = {"op": "dumps"}
    else:
        # a variant that has been filed where it belongs is offered to a container that is not its own
        v = K["vars"][pick(rng, list(placed))]
        others = ["top"] + [vid_base + w["n"] for w in K["vars"] if w["n"] != v["n"]]
        own = "top" if v["parent"] is None else vid_base + v["parent"]
        others = [x for x in others if x != own]
        o = {"op": "var_add", "var": vid_base + v["n"], "into": pick(rng, others)} if others else {"op": "dumps"}
    o.update(sl)
    return o


# ---- mutations -------------------------------------------------------------------------------
def valid_mutation(K, rng, slot=0):
    """A valid change that alters the serialised content."""
    sl = {"slot": slot} if slot else {}
    if K["vars"] and rng.random() < 0.1:
        # a look-up in between (a consumer lists the variants of one architecture): looking is not changing
        o = {"op": "get_variants", "at": "top" if rng.random() < 0.6 else pick(rng, K["vars"])["n"],
             "arch": pick(rng, [None, "src"] + pools.ARCHES), "types": None, "recursive": rng.random() < 0.6}
        o.update(sl)
        return o
    r = rng.random()
    swappable = [v for v in K["vars"] if not any(c["parent"] == v["n"] for c in K["vars"])]
    if r < 0.15 and swappable:
        # one arch is replaced by another one (the COUNT stays the same)
        v = pick(rng, swappable)
        allowed = pools.ARCHES if v["parent"] is None else K["vars"][v["parent"]]["arches"]
        fresh = [a for a in allowed if a not in v["arches"]]
        if fresh:
            new_arches = sorted(v["arches"][1:] + [pick(rng, fresh)])
            o = {"op": "var_set", "var": v["n"], "field": "arches", "value": new_arches}
            o.update(sl)
            return o
    late = [(v, a) for v in K["vars"] if v["parent"] is None or True for t in v["paths"].values() for a in t
            if a not in v["arches"] and (v["parent"] is None or a in K["vars"][v["parent"]]["arches"])]
    if late and r < 0.3:
        # the variant gains an architecture for which paths were recorded EARLIER (they were not part of the output so far)
        v, a = pick(rng, late)
        v["arches"] = sorted(v["arches"] + [a])
        o = {"op": "var_set", "var": v["n"], "field": "arches", "value": list(v["arches"])}
        o.update(sl)
        return o
    if r < 0.4:
        o = {"op": "ci_set", "sec": "compose", "field": "respin", "value": rng.randint(3, 9)}
    elif r < 0.5 and K["compose"].get("label"):
        # the milestone label is taken back (a respin without one): label AND final leave the document
        o = {"op": "ci_set", "sec": "compose", "field": "label", "value": None}
    elif r < 0.5:
        o = {"op": "ci_set", "sec": "compose", "field": "label", "value": pick(rng, ["RC-1.0", "Beta-2.3", "Update-1.0"])}
    elif r < 0.7:
        o = {"op": "ci_set", "sec": "release", "field": "name", "value": pick(rng, pools.NAMES) + " II"}
    elif K["vars"]:
        v = pick(rng, K["vars"])
        o = {"op": "var_path", "var": v["n"], "cat": pick(rng, pools.CI_PATH_CATS), "arch": pick(rng, v["arches"]),
             "value": "new/" + pick(rng, PATH_VALUES)}
    else:
        o = {"op": "ci_set", "sec": "release", "field": "internal", "value": True}
    o.update(sl)
    return o


CI_POISON = [
    # (sec, field, bad values)
    ("compose", "id", [None, 123, "", "abc", "F-20-2015.0"]),
    ("compose", "date", [None, 20150522, "2015", "2015052a", "201505221", "", "2015052", "201552", "20150522 "]),
    ("compose", "type", [None, "prod", "Production", "", 3]),
    ("compose", "respin", [None, "0", 1.5]),
    ("compose", "label", pools.LABELS_BAD),
    ("release", "name", [None, 5]),
    ("release", "version", [None, 7, "", "1.", "1..2", "1a", "7.x"]),
    ("release", "short", [None, 5]),
    ("release", "type", [None, "GA", "beta", "", "Updates", "bogus", "security-respin", "lts"]),
    ("release", "is_layered", [None, "true", 1, 0]),
    ("release", "internal", [None, "false", 1]),
]
BP_POISON = [
    ("base_product", "name", [None, 5]),
    ("base_product", "version", [None, "", "1.", "7.x"]),
    ("base_product", "short", [None, 5]),
    ("base_product", "type", [None, "GA", "beta", "", "bogus", "lts"]),
]
VAR_POISON = [
    ("id", [None, 5, "Ser-ver", "", "a b", "x_y", "S\u00e9rver", "Server\u00b2", "\uff33erver", "\u0421\u0435\u0440\u0432\u0435\u0440", "\u0663", "Server\n"]),
    ("uid", ["Mis-aligned", "zzz", None, 5]),
    ("name", [None, "", 5]),
    ("type", [None, "layered", "Variant", ""]),
    ("arches", [[]]),
]
VAR_REL_POISON = [
    ("release.name", [None, 5]),
    ("release.version", [None, "", "1.", "7.x"]),
    ("release.short", [None]),
    ("release.type", [None, "GA", "beta"]),
    ("release.internal", [None, "no"]),
]


def poison_sites(K):
    """Every (locator, bad value) for content K - the complement table of C06 for composeinfo."""
    sites = []
    for sec, f, bads in CI_POISON:
        if f == "final":
            continue
        for b in pools.with_generic(bads):
            sites.append({"kind": "sec", "sec": sec, "field": f, "bad": b, "good": K[sec][f]})
    if K["compose"]["label"]:
        for b in ["yes", 1, None]:
            sites.append({"kind": "sec", "sec": "compose", "field": "final", "bad": b, "good": K["compose"]["final"]})
    if K["release"]["is_layered"]:
        for sec, f, bads in BP_POISON:
            for b in pools.with_generic(bads):
                sites.append({"kind": "sec", "sec": sec, "field": f, "bad": b, "good": K[sec][f]})
    for v in K["vars"]:
        for f, bads in VAR_POISON:
            for b in (pools.with_generic(bads) if f not in ("uid", "arches") else bads + ([["zz"], []] if f == "arches" else [])):
                sites.append({"kind": "var", "var": v["n"], "field": f, "bad": b, "good": v[f]})
        if v["parent"] is not None:
            p = K["vars"][v["parent"]]
            # an arch that a variant FURTHER UP has and the direct parent lacks is as foreign as any other
            up, q = [], p
            while q["parent"] is not None:
                q = K["vars"][q["parent"]]
                up.extend(a for a in q["arches"] if a not in p["arches"] and a not in v["arches"] and a not in up)
            for fa in up[:2] + pools.foreign_arches(p["arches"], v["arches"])[:4]:
                sites.append({"kind": "var", "var": v["n"], "field": "arches", "bad": sorted(v["arches"] + [fa]), "good": v["arches"]})
        sites.append({"kind": "var-inplace", "var": v["n"], "how": "clear", "good": v["arches"]})
        if not any(c["parent"] == v["n"] for c in K["vars"]) and not v["dashed"]:
            # a RENAME: id and uid changed in step, so that nothing but the id's own format stands against writing it
            puid = None if v["parent"] is None else K["vars"][v["parent"]]["uid"]
            for bad in ["S\u00e9rver", "Server\u00b2", "\uff33erver", "\u0421\u0435\u0440\u0432\u0435\u0440", "x\u0663", "a b", "x_y", "x.y", "Server\n"]:
                sites.append({"kind": "var-rename", "var": v["n"], "bad": {"id": bad, "uid": bad if puid is None else "%s-%s" % (puid, bad)},
                              "good": {"id": v["id"], "uid": v["uid"]}})
        if v["parent"] is not None:
            p = K["vars"][v["parent"]]
            for fa in up[:1] + pools.foreign_arches(p["arches"], v["arches"])[:3]:
                sites.append({"kind": "var-inplace", "var": v["n"], "how": "add", "value": fa, "good": v["arches"]})
        if v["type"] == "layered-product":
            for f, bads in VAR_REL_POISON:
                for b in pools.with_generic(bads):
                    sites.append({"kind": "var", "var": v["n"], "field": f, "bad": b, "good": v["release"][f[8:]]})
    return sites


def poison_ops(site, slot=0):
    sl = {"slot": slot} if slot else {}
    if site["kind"] == "sec":
        p = {"op": "ci_set", "sec": site["sec"], "field": site["field"], "value": site["bad"]}
        h = {"op": "ci_set", "sec": site["sec"], "field": site["field"], "value": site["good"]}
    elif site["kind"] == "var-rename":
        p = {"op": "var_set_many", "var": site["var"], "fields": dict(site["bad"])}
        h = {"op": "var_set_many", "var": site["var"], "fields": dict(site["good"])}
    elif site["kind"] == "var-inplace":
        p = {"op": "var_arches_inplace", "var": site["var"], "how": site["how"], "value": site.get("value")}
        h = {"op": "var_set", "var": site["var"], "field": "arches", "value": site["good"]}
    else:
        p = {"op": "var_set", "var": site["var"], "field": site["field"], "value": site["bad"]}
        h = {"op": "var_set", "var": site["var"], "field": site["field"], "value": site["good"]}
    p.update(sl)
    h.update(sl)
    return p, h
