"""C17 - the legacy [general] section mirrors the authoritative sections.

Invariant on every .treeinfo that reaches SimFS (independent INI reader): family/version/name/arch/platforms/
timestamp/variant/packagedir/repository; the history matters a little: variants are added and removed between
dumps, main_variant changes from dump to dump, float and integer timestamps alternate, platforms with and
without the tree arch.  Second check: the compatibility sections alone are fed to a restart as a
pre-productmd file.
"""
from .. import gen_ti
from ..pools import pick

ID = "C17"
LEVEL = "exploration"
RUNS = {"quick": 3000, "thorough": 150000}
REQUIRED_FAULTS = ["F8.older_format_on_disk"]
MACHINES = ["M-TI"]


def generate(rng, tier, idx):
    if idx % 8 == 7:
        # a tree READ from a pre-productmd file (recorded corpus of RHEL 3-6 / Fedora / CentOS layouts) and written back
        return {"machine": "M-TI", "cfg": {"simset": "insertion"},
                "ops": [{"op": "ti_golden", "path": "/sim/d/.treeinfo", "k": rng.randrange(10 ** 6), "via": pick(rng, ["path", "handle", "loads"])}
                        for _ in range(rng.randint(1, 3))]}
    K = gen_ti.gen_content(rng, max_top=4, float_ts=rng.random() < 0.5)
    ops = gen_ti.build_ops(K, rng)
    if rng.random() < 0.15:
        # the variant objects were created for ANOTHER tree (a binary one) and are added to this one (template re-use)
        other = {"op": "ti_init", "slot": 5, "release": dict(K["release"]), "tree": {"arch": "x86_64" if K["tree"]["arch"] != "x86_64" else "src", "build_timestamp": 7}}
        ops.insert(1, other)
        for o in ops:
            if o["op"] == "ti_var_new" and rng.random() < 0.8:
                o["owner_slot"] = 5
    path = "/sim/d/.treeinfo"
    keys = gen_ti.top_keys(K)
    if len(keys) > 1 and rng.random() < 0.3:
        # the file lives where a compose keeps it: <variant>/<arch>/os/.treeinfo - for a variant that is NOT the first one
        d = "/sim/compose/%s/%s/os" % (pick(rng, sorted(keys)[1:]), K["tree"]["arch"])
        ops.append({"op": "fs_mkdir", "path": d})
        path = d + "/.treeinfo"
    tops = [v for v in K["vars"] if v["parent"] is None]
    for cycle in range(rng.randint(2, 5)):
        d = {"op": "dump", "path": path}
        if rng.random() < 0.6:
            d["main_variant"] = pick(rng, keys)
        if rng.random() < 0.2:
            d["to"] = "handle"
        ops.append(d)
        r = rng.random()
        if r < 0.3:
            ops.append({"op": "ti_legacy_general", "path": path})
        elif r < 0.5:
            ops.append({"op": "restart", "path": path, "via": pick(rng, ["path", "handle", "loads"]), "offset": rng.randint(0, 800)})
        elif r < 0.7:
            ops.append({"op": "ti_var_del", "var": pick(rng, tops)["n"]})
        else:
            ops.append({"op": "ti_set", "sec": "tree", "field": "build_timestamp",
                        "value": rng.choice([5, 7.75, 1410855216.999, 10 ** 10, 0.5 + rng.randint(1, 9)])})
        if rng.random() < 0.4:
            ops.append(gen_ti.valid_mutation(K, rng))
        if rng.random() < 0.3:
            ops.append({"op": "dumps"})
        elif rng.random() < 0.3:
            o = {"op": "ti_serialize"}
            if rng.random() < 0.3:
                o["main_variant"] = pick(rng, keys)
            ops.append(o)
    return {"machine": "M-TI", "cfg": {"simset": pick(rng, ["insertion", "shuffle", "reverse"])}, "ops": ops}
