"""M-IM: a node holding one productmd.images.Images manifest.

Model: {"compose": {...}, "version": "1.2"|...|None(unknown), "imgs": {iid: {15 attrs}},
        "cells": {variant: {arch: [iid, ...]}}, "legacy_collision": bool}
"""
import collections
import copy
import json
import re

from ..core import register_machine, Violation
from ..seams import CTX, HarnessError
from ..util import cjson, h64, exc_class
from .. import pools
from .base import FormatMachine, Slot, VALID, INVALID, UNSPEC, first_diff, diff_key, dec
from .ci import compose_validity, COMPOSE_FIELDS

IMG_FIELDS = ["path", "mtime", "size", "volume_id", "type", "format", "arch", "disc_number", "disc_count",
              "checksums", "implant_md5", "bootable", "subvariant", "unified", "additional_variants"]
IDENTITY = ["subvariant", "type", "format", "arch", "disc_number", "unified", "additional_variants"]
BINARY_ARCHES = None
CURRENT = "1.2"


def rpm_arches():
    """the documented architecture table - the harness's OWN copy (an arch that silently drops out of, or slips into, the
    library's list must not take the oracle with it)"""
    return list(pools.RPM_ARCHES_DOC)


def _is_int(v):
    return isinstance(v, int) and not isinstance(v, bool)


def vtuple(v):
    try:
        return tuple(int(x) for x in v.split("."))
    except Exception:
        return None


def identity(img):
    """Independent statement of the documented identity."""
    return (img.get("subvariant"), img.get("type"), img.get("format"), img.get("arch"), img.get("disc_number"),
            bool(img.get("unified") or False), tuple(img.get("additional_variants") or []))


def image_validity(i):
    p = "image"
    if not isinstance(i.get("path"), str):
        return INVALID, p + ".path:type"
    if not i["path"]:
        return INVALID, p + ".path:blank"
    for f in ("mtime", "size", "disc_number", "disc_count"):
        v = i.get(f)
        if isinstance(v, bool):
            return UNSPEC, p + ".%s:bool" % f
        if not isinstance(v, int):
            return INVALID, p + ".%s:type" % f
    if i["size"] == 0:
        return UNSPEC, p + ".size:zero"
    v = i.get("volume_id")
    if v is not None and not isinstance(v, str):
        return INVALID, p + ".volume_id:type"
    if v == "":
        return INVALID, p + ".volume_id:blank"
    if not isinstance(i.get("type"), str) or i["type"] not in pools.IMAGE_TYPES:
        return INVALID, p + ".type:enum"
    if not isinstance(i.get("format"), str) or i["format"] not in pools.IMAGE_FORMATS:
        return INVALID, p + ".format:enum"
    if not isinstance(i.get("arch"), str):
        return INVALID, p + ".arch:type"
    if not i["arch"]:
        return INVALID, p + ".arch:blank"
    c = i.get("checksums")
    if not isinstance(c, dict):
        return INVALID, p + ".checksums:type"
    if not c:
        return INVALID, p + ".checksums:empty"
    m = i.get("implant_md5")
    if m is not None and not isinstance(m, str):
        return INVALID, p + ".implant_md5:type"
    if m is not None and (not re.match(r"^[a-z0-9]{32}$", m) or m.endswith("\n")):
        return INVALID, p + ".implant_md5:format"
    if not isinstance(i.get("bootable"), bool):
        return INVALID, p + ".bootable:type"
    if not isinstance(i.get("subvariant"), str):
        return INVALID, p + ".subvariant:type"
    if not isinstance(i.get("unified"), bool):
        return INVALID, p + ".unified:type"
    av = i.get("additional_variants")
    if not isinstance(av, list):
        return INVALID, p + ".additional_variants:type"
    if av and not i["unified"]:
        return INVALID, p + ".additional_variants:non-unified"
    return VALID, ""


def im_validity(model):
    worst = (VALID, "")
    # a manifest in which two filed images share identity with different checksums can only arise by mutating an image
    # AFTER it was filed (add refuses it) or through the pre-1.1 exemption: outside C02/C06's quantifiers
    seen = {}
    for variant in model["cells"]:
        for arch in model["cells"][variant]:
            for iid in model["cells"][variant][arch]:
                img = model["imgs"][iid]
                try:
                    k = cjson(list(identity(img)))
                except Exception:
                    continue
                c = cjson(img.get("checksums"))
                if k in seen and seen[k] != c:
                    worst = (UNSPEC, "identity-collision-in-manifest")
                seen.setdefault(k, c)
    vv, why = compose_validity(model["compose"])
    if vv == INVALID:
        return vv, why
    if vv == UNSPEC:
        worst = (vv, why)
    for variant in sorted(model["cells"]):
        for arch in sorted(model["cells"][variant]):
            for iid in model["cells"][variant][arch]:
                vv, why = image_validity(model["imgs"][iid])
                if vv == INVALID:
                    return vv, why
                if vv == UNSPEC:
                    worst = (vv, why)
    return worst


def norm_image(i):
    d = dict((f, copy.deepcopy(i[f])) for f in IMG_FIELDS)
    return d


def cells_expected(model):
    out = {}
    for variant, arches in model["cells"].items():
        for arch, iids in arches.items():
            imgs = [norm_image(model["imgs"][iid]) for iid in iids]
            if imgs:
                out.setdefault(variant, {})[arch] = sorted(imgs, key=cjson)
    return out


def norm_compose(c):
    label = c["label"] or None
    return {"id": c["id"], "type": c["type"], "date": c["date"], "respin": c["respin"], "label": label,
            "final": bool(c["final"]) if label else False}


def observe_compose(obj):
    return dict((f, getattr(obj.compose, f)) for f in COMPOSE_FIELDS)


def observe_image(img):
    d = {}
    for f in IMG_FIELDS:
        v = getattr(img, f)
        d[f] = copy.deepcopy(v)
    return d


def observe_im(obj):
    cells = {}
    for variant in obj.images:
        for arch in obj.images[variant]:
            imgs = [observe_image(i) for i in obj.images[variant][arch]]
            if imgs:
                cells.setdefault(variant, {})[arch] = sorted(imgs, key=cjson)
    return {"compose": observe_compose(obj), "cells": cells}


def shape_im(obj):
    """key structure of the public mapping, empty cells included"""
    return dict((v, dict((a, len(c)) for a, c in arches.items())) for v, arches in obj.images.items())


def collisions(cells):
    """All pairs of images (anywhere in the manifest) with equal identity and different checksums."""
    seen = {}
    out = []
    for variant in sorted(cells):
        for arch in sorted(cells[variant]):
            for img in cells[variant][arch]:
                k = identity(img)
                for other in seen.get(k, []):
                    if other["checksums"] != img["checksums"]:
                        out.append((k, other["path"], img["path"]))
                seen.setdefault(k, []).append(img)
    return out


@register_machine("M-IM")
class IMMachine(FormatMachine):
    FORMAT = "images"
    ROUNDTRIP_PROP = "C02"
    KIND = "json"
    FILE = "images.json"
    HEADER_TYPE = "productmd.images"

    def mods(self):
        import productmd.images as m
        return m

    def new_obj(self):
        return self.mods().Images()

    def keeps_roundtrip_oracle(self, why):
        # the library itself accepted the colliding image into a current-format manifest: IF it then agrees to write the
        # manifest, it reads it back
        s = self.slots.get(0)
        return why == "identity-collision-in-manifest" and any(sl.model and sl.model.get("accepted_collision") for sl in self.slots.values())

    def observe(self, obj):
        return observe_im(obj)

    def validity(self, s):
        return im_validity(s.model)

    def expected_loaded(self, s):
        return {"compose": norm_compose(s.model["compose"]), "cells": cells_expected(s.model)}

    def abstract(self, s):
        m = s.model
        return [m["compose"].get("type"), m.get("version"),
                sorted((len(a), sorted(len(i) for i in a.values())) for a in m["cells"].values())]

    def abstract_expected(self, e):
        return [e["compose"]["type"],
                sorted((arch, len(imgs), sorted(set(i["type"] for i in imgs))[:3], any(i["unified"] for i in imgs))
                       for v in e["cells"].values() for arch, imgs in v.items())]

    # ---- construction --------------------------------------------------------------
    def op_im_init(self, op):
        s = Slot()
        s.obj = self.new_obj()
        # a new manifest is a current-format manifest (the model does not ask the object what it thinks it is)
        s.model = {"compose": {}, "version": CURRENT, "imgs": {}, "cells": {}, "legacy_collision": False,
                   "version_origin": "fresh-default"}
        for f in COMPOSE_FIELDS:
            s.model["compose"][f] = getattr(s.obj.compose, f)
        if op.get("version") is not None:
            s.obj.header.version = op["version"]
            s.model["version"] = op["version"]
            s.model["version_origin"] = "explicit-legacy-version"
        for f, v in (op.get("compose") or {}).items():
            setattr(s.obj.compose, f, v)
            s.model["compose"][f] = v
        self.slots[op.get("slot", 0)] = s
        return "ok"

    def op_im_set_version(self, op):
        """the caller assigns header.version on the LIVE manifest (the test suite does, to get at the pre-1.1 behaviour, and
        back): from that call on the manifest is what the header says it is"""
        s = self.slot(op)
        if s is None or s.obj is None or s.tainted:
            return "noop"
        s.obj.header.version = op["version"]
        s.model["version"] = op["version"]
        vt = vtuple(op["version"])
        if vt is not None and vt < (1, 1):
            s.model["version_origin"] = "explicit-legacy-version"
        CTX.probe("im.header_version_assigned_mid_history")
        return "ok"

    def op_im_set(self, op):
        s = self.slot(op)
        if s is None:
            return "noop"
        setattr(s.obj.compose, op["field"], dec(op["value"]))
        s.model["compose"][op["field"]] = dec(op["value"])
        return "ok"

    def op_img_new(self, op):
        s = self.slot(op)
        if s is None:
            return "noop"
        iid = str(op["iid"])
        parent = s.obj
        if "parent_slot" in op:
            # the image object was created for ANOTHER manifest (or for none) and is then filed in this one
            ps = self.slots.get(op["parent_slot"])
            parent = ps.obj if (op["parent_slot"] is not None and ps is not None) else None
        img = self.mods().Image(parent)
        attrs = {}
        inplace = op.get("inplace") or []
        for f in IMG_FIELDS:
            if f in op["attrs"] and f not in inplace:
                val = copy.deepcopy(op["attrs"][f])
                if f == "checksums" and "ck_order" in op and isinstance(val, dict):
                    # the caller's mapping is a dict SUBCLASS filled in its own order (ops are stored with sorted keys)
                    import random as _random
                    keys = sorted(val)
                    _random.Random(op["ck_order"]).shuffle(keys)
                    val = collections.OrderedDict((k, val[k]) for k in keys)
                setattr(img, f, val)
        # fields listed in `inplace` are NOT assigned: the object's own default container is filled in place
        # (checksums through add_checksum, additional_variants through append) - what a caller who never assigns would do
        if "checksums" in inplace and isinstance(op["attrs"].get("checksums"), dict) and isinstance(img.checksums, dict):
            for t, v in op["attrs"]["checksums"].items():
                img.add_checksum(None, t, v)
        if "additional_variants" in inplace and isinstance(op["attrs"].get("additional_variants"), list) and isinstance(img.additional_variants, list):
            for v in op["attrs"]["additional_variants"]:
                img.additional_variants.append(v)
        for f in IMG_FIELDS:
            attrs[f] = copy.deepcopy(getattr(img, f))
        if inplace:
            CTX.probe("im.image_built_in_place_on_defaults")
            want = dict((f, op["attrs"][f]) for f in inplace if f in op["attrs"])
            got = dict((f, attrs[f]) for f in want)
            P = "C09" if self.cfg.get("focus") == "C09" else "C02"         # (both are identity attributes / what identity is judged by)
            if want != got and self.watching(P):
                raise Violation(P, "%s.object_holds_what_was_put_in" % P, "in-place-built-image-differs", {"diff": first_diff(want, got)})
        s.pool[iid] = img
        s.model["imgs"][iid] = attrs
        return "ok"

    def op_img_set(self, op):
        s = self.slot(op)
        iid = str(op.get("iid"))
        if s is None or iid not in s.pool:
            return "noop"
        setattr(s.pool[iid], op["field"], copy.deepcopy(dec(op["value"])))
        s.model["imgs"][iid][op["field"]] = copy.deepcopy(dec(op["value"]))
        return "ok"

    def op_img_remove(self, op):
        """a caller takes an image out of a cell through the public set (possibly leaving the cell empty)"""
        s = self.slot(op)
        iid = str(op.get("iid"))
        if s is None or s.tainted or iid not in s.pool:
            return "noop"
        variant, arch = op["variant"], op["arch"]
        cell = s.model["cells"].get(variant, {}).get(arch)
        if cell is None or iid not in cell:
            return "noop"
        if len(iid) % 2:
            s.obj[variant][arch].discard(s.pool[iid])           # (the manifest's own subscript: manifest[variant][arch] IS the cell)
        else:
            s.obj.images[variant][arch].discard(s.pool[iid])
        cell.remove(iid)
        if not cell:
            CTX.probe("im.empty_cell_left_behind")
        return "ok"

    def op_img_inplace(self, op):
        """in-place change of a mutable field (no attribute assignment happens): checksums.clear(),
        checksums[k] = v, additional_variants.append(x), ..."""
        s = self.slot(op)
        iid = str(op.get("iid"))
        if s is None or iid not in s.pool:
            return "noop"
        img, m = s.pool[iid], s.model["imgs"][iid]
        how = op["how"]
        if how in ("checksums.clear", "checksums.set", "checksums.del"):
            if not isinstance(m.get("checksums"), dict) or not isinstance(img.checksums, dict):
                return "noop"
            if how == "checksums.clear":
                img.checksums.clear()
                m["checksums"] = {}
            elif how == "checksums.set":
                img.checksums[op["key"]] = op["value"]
                m["checksums"][op["key"]] = op["value"]
            else:
                if op["key"] not in m["checksums"]:
                    return "noop"
                del img.checksums[op["key"]]
                del m["checksums"][op["key"]]
        else:
            if not isinstance(m.get("additional_variants"), list) or not isinstance(img.additional_variants, list):
                return "noop"
            if how == "additional_variants.append":
                img.additional_variants.append(op["value"])
                m["additional_variants"].append(op["value"])
            else:
                del img.additional_variants[:]
                m["additional_variants"] = []
        return "ok"

    def _present(self, model):
        out = []
        for variant in sorted(model["cells"]):
            for arch in sorted(model["cells"][variant]):
                for iid in model["cells"][variant][arch]:
                    out.append(iid)
        return out

    def op_img_add(self, op):
        s = self.slot(op)
        iid = str(op.get("iid"))
        if s is None or iid not in s.pool:
            return "noop"
        model = s.model
        variant, arch = op["variant"], op["arch"]
        img = model["imgs"][iid]
        binary = [a for a in rpm_arches() if a not in ("src", "nosrc")]
        expect, why = "ok", ""
        if s.tainted:
            expect, why = UNSPEC, "tainted"
        elif not isinstance(arch, str) or arch not in binary:
            expect, why = "fail", "arch:" + ("src" if arch in ("src", "nosrc") else "unknown")
        else:
            vt = vtuple(model["version"]) if model["version"] else None
            coll = []
            for other in self._present(model):
                o = model["imgs"][other]
                if identity(o) == identity(img) and o["checksums"] != img["checksums"]:
                    coll.append(other)
            eq = [o for o in self._present(model) if identity(model["imgs"][o]) == identity(img)
                  and model["imgs"][o]["checksums"] == img["checksums"] and o != iid]
            if coll:
                if vt is None:
                    expect, why = UNSPEC, "collision:version-unknown"
                elif vt >= (1, 1):
                    expect, why = "fail", "collision"
                else:
                    expect, why = "ok", "collision-pre-1.1"
            elif eq:
                why = "same-identity-equal-checksums"
        before = observe_im(s.obj)
        shape_before = shape_im(s.obj)
        try:
            s.obj.add(variant, arch, s.pool[iid])
            raised = None
        except Exception as e:
            if isinstance(e, HarnessError):
                raise
            raised = e
        prop = "C10" if why.startswith("arch:") else "C09"
        if raised is not None:
            CTX.fault("F5.refused_api_call")
            after = observe_im(s.obj)
            self.count(prop, ["add-refused", why, model["version"], len(self._present(model))])
            if expect == "ok":
                raise Violation("C09", "C09.valid_add_accepted", "valid-add-refused/%s/%s" % (why or "plain", exc_class(raised)),
                                {"error": exc_class(raised), "msg": str(raised)[:160], "why": why, "version": model["version"]})
            if expect == "fail" and not isinstance(raised, (ValueError, TypeError) if prop == "C10" else ValueError):
                raise Violation(prop, "%s.refusal_is_valueerror" % prop, "exctype/%s/%s" % (why, exc_class(raised)),
                                {"error": exc_class(raised), "why": why})
            if after != before:
                raise Violation(prop, "%s.refused_add_changes_nothing" % prop, "refused-add-changed-manifest/%s" % why,
                                {"diff": first_diff(before, after), "why": why})
            if shape_im(s.obj) != shape_before:
                raise Violation(prop, "%s.refused_add_changes_nothing" % prop, "refused-add-left-empty-shell/%s" % why,
                                {"diff": first_diff(shape_before, shape_im(s.obj)), "why": why})
            if why == "collision":
                CTX.probe("c09.collision_refused")
            return "refused:" + exc_class(raised)
        if expect == "fail":
            if prop == "C10":
                raise Violation("C10", "C10.source_or_unknown_arch_refused", "bad-arch-accepted/%s" % why, {"arch": arch})
            # C05: "re-loading that file gives an identical object" - an object converted from an older document must also
            # BEHAVE like one: in a C05 run the lapse is reported there
            P = "C05" if (self.cfg.get("focus") == "C05" and model.get("version_origin") == "loaded") else "C09"
            if self.watching(P) or self.cfg.get("focus") not in ("C02", "C08"):
                raise Violation(P, "%s.colliding_add_refused" % P, "colliding-add-accepted/v%s" % model["version"],
                                {"version": model["version"], "identity": list(identity(img))[:5]})
            # a round-trip / canonical-form run: the manifest now holds what the call put in; the run's own oracle judges what
            # becomes of it (a manifest the library agrees to write is read back)
            CTX.probe("foreign.colliding_add_accepted")
            model["accepted_collision"] = True
            cell = model["cells"].setdefault(variant, {}).setdefault(arch, [])
            if iid not in cell:
                cell.append(iid)
            return "accepted-colliding(foreign)"
        if expect == UNSPEC:
            s.tainted = True
            return "accepted-unspec"
        cell = model["cells"].setdefault(variant, {}).setdefault(arch, [])
        if iid not in cell:
            cell.append(iid)
        if why == "collision-pre-1.1":
            model["legacy_collision"] = model["legacy_collision"] or model.get("version_origin", "legacy")
            CTX.probe("c09.pre_1_1_exemption_taken")
        if why == "same-identity-equal-checksums":
            CTX.probe("c09.same_identity_equal_checksums_accepted")
        if len(cell) >= 2:
            CTX.probe("im.cell_with_2plus_images")
        if sum(1 for v in model["cells"].values() for c in v.values() if iid in c) >= 2:
            CTX.probe("im.same_object_in_2plus_cells")
        # exactly the addressed cell gained the image
        after = observe_im(s.obj)
        want = {"compose": before["compose"], "cells": cells_expected(model)}
        self.count(prop, ["add-ok", why, model["version"], len(self._present(model)) > 1])
        if vtuple(model["version"] or "0.0") is not None:
            d = first_diff(want["cells"], after["cells"])
            if d and self.watching("C09"):
                raise Violation("C09", "C09.add_changes_only_addressed_cell", "add-effect-differs/%s" % diff_key(d), {"diff": d})
            if d:
                # another property's run: the model keeps what the CALLS specified; the run's own oracle (read back / equal
                # bytes for equal histories) judges the consequence
                CTX.probe("foreign.im_add_effect_differs")
        self.check_unique(s, "after-add")
        return "ok"

    def check_unique(self, s, where):
        """C09 (c): format >= 1.1 => no identity collision anywhere (observed, independent identity function)."""
        m = s.model
        if s.tainted or not m["version"] or not self.watching("C09"):
            return
        vt = vtuple(m["version"])
        if vt is None or vt < (1, 1):
            return
        obs = observe_im(s.obj)
        c = collisions(obs["cells"])
        self.count("C09", ["unique", where, len(c) > 0, sum(len(a) for v in obs["cells"].values() for a in v.values()) > 1])
        if c and not m.get("legacy_collision"):
            raise Violation("C09", "C09.no_collision_in_1_1_plus", "collision-in-live-manifest/%s" % where,
                            {"pairs": [[list(k)[:5], a, b] for k, a, b in c[:3]], "version": m["version"]})

    # ---- C16 (d) ------------------------------------------------------------------------
    def op_img_add_checksum(self, op):
        s = self.slot(op)
        iid = str(op.get("iid"))
        if s is None or iid not in s.pool:
            return "noop"
        img = s.model["imgs"][iid]
        if not isinstance(img.get("checksums"), dict):
            return "noop"
        ctype, value = op["ctype"], op["value"]
        before = dict(img["checksums"])
        rec = before.get(ctype)
        try:
            ret = s.pool[iid].add_checksum(None, ctype, value)
            raised = None
        except Exception as e:
            if isinstance(e, HarnessError):
                raise
            raised = e
        after = dict(s.pool[iid].checksums)
        # a call addressed to one image never touches what another image has recorded
        for other, oimg in sorted(s.pool.items()):
            if other != iid and oimg is not s.pool[iid] and isinstance(s.model["imgs"][other].get("checksums"), dict):
                if dict(oimg.checksums) != s.model["imgs"][other]["checksums"]:
                    raise Violation("C16", "C16.recorded_checksum_never_replaced", "checksums-of-another-image-changed",
                                    {"diff": first_diff(s.model["imgs"][other]["checksums"], dict(oimg.checksums))})
        kind = "new" if ctype not in before else ("equal" if value == rec else ("empty" if not value else "conflict"))
        self.count("C16", ["add_checksum", kind, bool(rec), raised is not None])
        # never silently replaced
        for t, v in before.items():
            # an entry that exists is never modified by add_checksum - whether it raises or not (a recorded EMPTY value
            # counts: the pinned behaviour refuses to put another value over it, a silent fill-in would be a replacement)
            if after.get(t, v) != v or (t not in after):
                raise Violation("C16", "C16.recorded_checksum_never_replaced", "image-checksum-replaced/%s" % kind,
                                {"type": t, "was": v, "now": after.get(t), "raised": raised is not None})
        if kind == "conflict" and rec:
            CTX.fault("F5.refused_api_call")
            if raised is None:
                # "never SILENTLY replaced": not raising is acceptable only if the recorded value was kept (checked above)
                CTX.probe("c16.conflicting_add_checksum_ignored_without_error")
        if kind == "new" and value:
            if raised is not None:
                raise Violation("C16", "C16.new_checksum_recorded", "new-checksum-refused/%s" % exc_class(raised), {})
            if after.get(ctype) != value or ret != value:
                raise Violation("C16", "C16.new_checksum_recorded", "new-checksum-not-recorded", {"type": ctype})
        if kind == "equal" and rec and raised is not None:
            raise Violation("C16", "C16.equal_checksum_accepted", "equal-checksum-refused/%s" % exc_class(raised), {})
        img["checksums"] = dict(after)
        return "ok" if raised is None else "refused:" + exc_class(raised)

    # ---- dump / restart --------------------------------------------------------------------
    def op_dump(self, op):
        s = self.slot(op)
        r = FormatMachine.op_dump(self, op)
        if s is not None and s.obj is not None:
            self._after_dump_attempt(s)
        if r == "ok":
            path = self.path(op)
            # remember which pool handle sat where (same order as the expected cells: sorted by content)
            aux = {}
            for variant, arches in s.model["cells"].items():
                for arch, iids in arches.items():
                    if iids:
                        aux.setdefault(variant, {})[arch] = sorted(iids, key=lambda i: cjson(norm_image(s.model["imgs"][i])))
            self.durable[path]["aux"] = aux
            self._check_stored(s, path)
        return r

    def op_dumps(self, op):
        s = self.slot(op)
        r = FormatMachine.op_dumps(self, op)
        if s is not None and s.obj is not None:
            self._after_dump_attempt(s)
        return r

    def op_c18_enum(self, op):
        s = self.slot(op)
        r = FormatMachine.op_c18_enum(self, op)
        if s is not None and s.obj is not None and not r.startswith("noop"):
            self._after_dump_attempt(s)
        return r

    def _after_dump_attempt(self, s):
        # "format gets converted on save": whether a failed or successful write already switched the live
        # object to the current version is not something the properties state -> unknown unless it was current
        if s.model["version"] != CURRENT:
            s.model["version"] = None

    def _check_stored(self, s, path):
        """C09 (c) / C10 (iii) on the stored file, by independent JSON parsing."""
        if not (self.watching("C09") or self.watching("C10")):
            return
        doc = json.loads(self.fs.get(path).decode("utf-8"))
        ver = vtuple(doc["header"]["version"])
        cells = doc["payload"]["images"]
        binary = [a for a in rpm_arches() if a not in ("src", "nosrc")]
        for variant in cells if self.watching("C10") else []:
            for arch in cells[variant]:
                self.count("C10", ["stored-arch", arch in binary])
                if arch not in binary:
                    raise Violation("C10", "C10.no_source_arch_key_written", "source-arch-key-in-stored-images/%s" % arch,
                                    {"variant": variant, "arch": arch})
        if not self.watching("C09"):
            return
        if ver is not None and ver >= (1, 1):
            c = collisions(cells)
            self.count("C09", ["stored-unique", len(c) > 0])
            if c:
                origin = s.model.get("legacy_collision") or "no-exemption"
                self.soft(Violation("C09", "C09.no_collision_in_1_1_plus", "collision-in-stored-manifest/%s" % origin,
                                    {"pairs": [[list(k)[:5], a, b] for k, a, b in c[:3]], "header_version": doc["header"]["version"]}))
                # known finding: the stored file is not loadable; nothing is claimed about restarting on it
                self.durable[path]["expected"] = None
                self.durable[path]["clean"] = False
                return
        # C09 (e): identity from object == identity from its serialised dict
        ident = self.mods().identify_image
        for variant in s.obj.images:
            for arch in s.obj.images[variant]:
                stored = cells.get(variant, {}).get(arch, [])
                live = list(s.obj.images[variant][arch])
                if len(stored) != len(live):
                    continue
                # the cell as a multiset: identities computed from the objects == identities computed from their dicts
                a = sorted(cjson(list(ident(i))) for i in live)
                b = sorted(cjson(list(ident(d))) for d in stored)
                c = sorted(cjson(list(identity(d)[:6]) + [list(identity(d)[6])]) for d in stored)
                self.count("C09", ["identify", len(live), any(i.unified for i in live), any(i.additional_variants for i in live)])
                if a != b or b != c:
                    raise Violation("C09", "C09.identity_object_equals_identity_dict", "identify_image-object-vs-dict",
                                    {"object": a[:2], "dict": b[:2], "independent": c[:2]})

    def op_im_inject_collision(self, op):
        """F3: between the write and the next restart a colliding pair appears in the stored document
        (its header version set below / at / above 1.1)."""
        path = self.path(op)
        d = self.durable.get(path)
        if d is None or not d["clean"] or d["expected"] is None:
            return "noop"
        doc = json.loads(self.fs.get(path).decode("utf-8"))
        cells = doc["payload"]["images"]
        flat = [(v, a, i) for v in sorted(cells) for a in sorted(cells[v]) for i in range(len(cells[v][a]))]
        if not flat or collisions(cells):
            return "noop"
        v, a, i = flat[op.get("pick", 0) % len(flat)]
        dup = copy.deepcopy(cells[v][a][i])
        dup["checksums"] = dict((k, val + "0") for k, val in dup["checksums"].items())
        if not op.get("same_path"):
            # (a file NAME says nothing about the identity: the copy may carry the suffix of another image format)
            dup["path"] = dup["path"] + [".dup", ".qcow2", ".raw.xz", ".tar.gz"][int(op.get("pick", 0)) % 4]
        raw = op.get("raw")
        # the colliding entry may SPELL the same identity differently: a key the reader defaults left out, a number as text
        if raw == "drop-format" and dup.get("format") == "iso":
            dup.pop("format")
        elif raw == "str-disc":
            dup["disc_number"] = str(dup["disc_number"])
        elif raw == "drop-unified" and dup.get("unified") is False and not dup.get("additional_variants"):
            dup.pop("unified", None)
            dup.pop("additional_variants", None)
        where = op.get("where", "same-cell")
        if where == "same-cell":
            cells[v][a].append(dup)
        elif where == "other-arch":
            cells[v].setdefault("ia64", []).append(dup)
        else:
            cells.setdefault("OtherVariant", {}).setdefault(a, []).append(dup)
        ver = op.get("version", "1.2")
        doc["header"]["version"] = ver
        if vtuple(ver) < (1, 1):
            doc["header"].pop("type", None)
        else:
            doc["header"]["type"] = "productmd.images"      # (the stored copy may be a down-converted one without it)
        for k in ("legacy", "legacy_version", "legacy_prop", "partial"):
            d.pop(k, None)                                  # from here on the document is judged as what the injection made of it
        self.fs.put(path, json.dumps(doc, indent=4, sort_keys=True, separators=(",", ": ")))
        CTX.fault("F3.colliding_pair_injected")
        d["clean"] = False
        d["expected"] = None
        d["must"] = "reject" if vtuple(ver) >= (1, 1) else "accept"
        d["must_prop"] = "C09"
        d["must_key"] = "colliding-pair/v%s/%s%s" % (ver, where, "/same-path" if op.get("same_path") else "")
        return "injected:" + d["must"]

    def op_im_load_onto(self, op):
        """A stored document is loaded into the LIVE, non-empty manifest (load merges into what the object holds).  The
        document (written by independent code) holds one image: a copy of an image the manifest already has - under a
        variant of its own - with other checksums (collide: the pair would break the rule, the load must be refused and
        the cells stay as they were) or with the same checksums (allowed: the manifest gains exactly that image)."""
        s = self.slot(op)
        if s is None or s.tainted or s.model.get("legacy_collision"):
            return "noop"
        m = s.model
        vt = vtuple(m["version"]) if m["version"] else None
        present = self._present(m)
        if vt is None or vt < (1, 1) or not present or im_validity(m)[0] != VALID or collisions(cells_expected(m)):
            return "noop"
        src = m["imgs"][present[op.get("pick", 0) % len(present)]]
        n = len([k for k in m["imgs"] if k.startswith("M")])
        variant = "Merged%d" % n
        arch = "x86_64"
        if variant in m["cells"]:
            return "noop"
        img = copy.deepcopy(src)
        img["path"] = "%s.m%d" % (img["path"], n)
        collide = bool(op.get("collide"))
        if collide:
            img["checksums"] = dict((k, (v[:-1] + ("1" if v[-1:] != "1" else "2")) if isinstance(v, str) and v else v) for k, v in img["checksums"].items())
            if img["checksums"] == src["checksums"]:
                return "noop"
        ver = op.get("version", "1.2")
        doc = {"header": {"type": "productmd.images", "version": ver},
               "payload": {"compose": dict((k, v) for k, v in norm_compose(m["compose"]).items() if k in ("id", "date", "type", "respin") or (k == "label" and v) or (k == "final" and v)),
                           "images": {variant: {arch: [dict((f, img[f]) for f in IMG_FIELDS)]}}}}
        path = "/sim/d/onto-%d.json" % n
        self.fs.put(path, json.dumps(doc, indent=4, sort_keys=True))
        before = observe_im(s.obj)
        try:
            s.obj.load(path)
            raised = None
        except Exception as e:
            if isinstance(e, HarnessError):
                raise
            raised = e
        after = observe_im(s.obj)
        self.count("C09", ["load-onto", collide, ver, raised is not None, len(present) > 1])
        # the compose section is the document's (the same facts, normalised by the file format) - or, after a refusal, may
        # still be the old one
        if after["compose"] == norm_compose(m["compose"]) or (raised is not None and after["compose"] == before["compose"]):
            m["compose"] = dict(after["compose"])
        else:
            s.tainted = True
        merged_cells = copy.deepcopy(cells_expected(m))
        merged_cells.setdefault(variant, {})[arch] = [norm_image(img)]
        only_cells = {variant: {arch: [norm_image(img)]}}
        if collide:
            CTX.fault("F3.colliding_pair_injected")
        if raised is not None:
            if not collide:
                raise Violation("C09", "C09.valid_add_accepted", "valid-document-refused-by-live-manifest/%s" % exc_class(raised),
                                {"error": exc_class(raised), "msg": str(raised)[:160]})
            if not isinstance(raised, ValueError):
                raise Violation("C09", "C09.refusal_is_valueerror", "exctype/load-onto/%s" % exc_class(raised), {"error": exc_class(raised)})
            CTX.probe("c09.colliding_document_onto_live_refused")
            if after["cells"] != before["cells"]:
                s.tainted = True        # what a refused load leaves behind is not specified
            return "refused:" + exc_class(raised)
        # accepted: whether load MERGES into what the object holds (pinned behaviour) or REPLACES it is not the property's
        # business - but the manifest that results must not hold a colliding pair, and must be one of the two
        if collisions(after["cells"]):
            raise Violation("C09", "C09.colliding_document_rejected", "colliding-document-merged-into-live-manifest/v%s" % ver,
                            {"version": ver, "identity": list(identity(img))[:5]})
        if first_diff(merged_cells, after["cells"]) is None and not collide:
            iid = "M%d" % n
            m["imgs"][iid] = img
            m["cells"].setdefault(variant, {}).setdefault(arch, []).append(iid)
            m["version"] = CURRENT
            live = list(s.obj.images.get(variant, {}).get(arch, ()))
            if len(live) == 1:
                s.pool[iid] = live[0]
            self.check_unique(s, "after-load-onto")
            return "merged"
        if first_diff(only_cells, after["cells"]) is None:
            # replace semantics: the manifest now is the document
            iid = "M%d" % n
            m["imgs"] = {iid: img}
            m["cells"] = {variant: {arch: [iid]}}
            m["version"] = CURRENT
            live = list(s.obj.images.get(variant, {}).get(arch, ()))
            s.pool = {iid: live[0]} if len(live) == 1 else {}
            CTX.probe("c09.load_onto_replaced_content")
            return "replaced"
        d = first_diff(merged_cells, after["cells"])
        raise Violation("C09", "C09.add_changes_only_addressed_cell", "load-onto-effect-differs/%s" % diff_key(d), {"diff": d})

    def op_im_legacy_onto(self, op):
        """A SECOND older-format document (1.0 / 1.1: source images under a 'src' key) is loaded into the live object, which
        already went through a load.  Whether load merges or replaces is not specified - but the source images of THIS
        document go under THIS document's binary arches of their variant, and no source key appears."""
        s = self.slot(op)
        if s is None or s.obj is None or s.tainted:
            return "noop"
        ver = op.get("version", "1.0")
        variant = op.get("variant", "Server")
        arches = [a for a in op.get("arches", ["ppc64le"]) if a not in ("src", "nosrc")]
        if not arches:
            return "noop"

        def img(path, arch, n):
            d = {"arch": arch, "bootable": False, "checksums": {"sha256": ("%02x" % (n + 1)) * 32}, "disc_count": 1, "disc_number": 1, "format": "iso",
                 "implant_md5": None, "mtime": 1, "path": path, "size": 1, "type": "dvd", "volume_id": None}
            if vtuple(ver) >= (1, 1):
                d["subvariant"] = "onto%d" % n
            return d
        cells = {variant: dict((a, [img("onto/%s/%s/b-%d.iso" % (variant, a, k), a, 10 * k + i)]) for i, (k, a) in enumerate(enumerate(arches)))}
        srcs = [img("onto/%s/source/s-%d.iso" % (variant, k), "src", 50 + k) for k in range(op.get("nsrc", 1))]
        cells[variant]["src"] = srcs
        hdr = {"version": ver} if vtuple(ver) <= (1, 0) else {"version": ver, "type": "productmd.images"}
        doc = {"header": hdr, "payload": {"compose": dict((k, v) for k, v in norm_compose(s.model["compose"]).items() if k in ("id", "date", "type", "respin")),
                                          "images": cells}}
        path = "/sim/d/legacy-onto.json"
        self.fs.put(path, json.dumps(doc, indent=4, sort_keys=True))
        CTX.fault("F8.older_format_on_disk")
        try:
            s.obj.load(self.arg(path))
        except Exception as e:
            if isinstance(e, HarnessError):
                raise
            s.tainted = True
            return "refused:" + exc_class(e)        # (not specified for an object that already holds content)
        s.tainted = True                             # merge or replace: the model no longer knows the rest of the manifest
        got = observe_im(s.obj)["cells"]
        self.count("C10", ["legacy-onto", ver, len(arches), len(srcs)])
        have = got.get(variant, {})
        for a in have:
            if a in ("src", "nosrc"):
                raise Violation("C10", "C10.no_source_arch_after_load", "source-arch-key-after-load/%s" % a, {"variant": variant, "history": "second-legacy-load"})
        for a in arches:
            paths = set(i["path"] for i in have.get(a, []))
            for sdoc in srcs:
                if sdoc["path"] not in paths:
                    raise Violation("C10", "C10.source_images_under_every_binary_arch", "upgrade-differs/images/v%s/second-load/%s" % (ver, a),
                                    {"missing": sdoc["path"], "arch": a, "has": sorted(paths)[:4]})
        for a, imgs in have.items():
            if a not in arches and any(i["path"].startswith("onto/%s/source/" % variant) for i in imgs):
                raise Violation("C10", "C10.source_images_under_every_binary_arch", "upgrade-differs/images/v%s/second-load/foreign-arch" % ver,
                                {"arch": a, "document_arches": arches})
        return "ok"

    def op_im_downgrade(self, op):
        """F8: the stored manifest is rewritten the way format 1.0 / 1.1 would have held it (independent
        down-converter following doc/images-1.0.rst, images-1.1.rst): no header type and no subvariant in
        1.0, no unified/additional_variants, and - for the chosen variants - source images filed under a
        'src' architecture next to the binary ones."""
        path = self.path(op)
        d = self.durable.get(path)
        if d is None or not d["clean"] or d["expected"] is None or d.get("legacy"):
            return "noop"
        ver = op.get("version", "1.0")
        doc = json.loads(self.fs.get(path).decode("utf-8"))
        cells = doc["payload"]["images"]
        if vtuple(ver) <= (1, 0):
            doc["header"] = {"version": ver}
        else:
            doc["header"] = {"version": ver, "type": "productmd.images"}
        src_variants = op.get("src_variants", [])
        moved = 0
        for variant in sorted(cells):
            for arch in cells[variant]:
                for img in cells[variant][arch]:
                    if vtuple(ver) <= (1, 0):
                        img.pop("subvariant", None)
                    img.pop("unified", None)
                    img.pop("additional_variants", None)
            if src_variants == "all" or variant in src_variants:
                src = {}
                for arch in sorted(cells[variant]):
                    keep = []
                    for img in cells[variant][arch]:
                        if img["arch"] == "src":
                            src[cjson(img)] = img
                            moved += 1
                        else:
                            keep.append(img)
                    cells[variant][arch] = keep
                if not src and op.get("empty_src"):
                    cells[variant]["src"] = []          # the key is there, the list is empty
                if src:
                    cells[variant]["src"] = [src[k] for k in sorted(src)]
                    if op.get("drop_empty"):
                        # an architecture left without any image of its own is not listed at all
                        for arch in [a for a in cells[variant] if a != "src" and not cells[variant][a]]:
                            del cells[variant][arch]
        # expected post-upgrade content, computed from the OLD document by the documented mapping
        exp_cells = {}
        outside = []
        for variant in cells:
            binary = [a for a in cells[variant] if a != "src"]
            if not binary and "src" in cells[variant]:
                # outside the claim (nowhere to re-file): what becomes of THIS variant is not judged - the others still are
                outside.append(variant)
                continue
            for arch in binary:
                imgs = list(cells[variant][arch]) + list(cells[variant].get("src", []))
                out = []
                for img in imgs:
                    e = copy.deepcopy(img)
                    e.setdefault("subvariant", "")
                    e["unified"] = False
                    e["additional_variants"] = []
                    out.append(dict((f, e[f]) for f in IMG_FIELDS))
                if out:
                    exp_cells.setdefault(variant, {})[arch] = sorted(out, key=cjson)
        if collisions(exp_cells):
            # >= 1.1: would (rightly) be refused on load, not a legal older document; 1.0: the pre-1.1
            # exemption case, exercised by C09 (known finding), kept out of the upgrade oracle
            return "noop-collision"
        if moved:
            CTX.probe("c10.src_images_moved_to_src_key", moved)
        self.fs.put(path, json.dumps(doc, indent=4, sort_keys=True, separators=(",", ": ")) if not outside else
                    json.dumps(collections.OrderedDict([("header", doc["header"]), ("payload", collections.OrderedDict([
                        ("compose", doc["payload"]["compose"]),
                        ("images", collections.OrderedDict((v, cells[v]) for v in (sorted(outside) + sorted(x for x in cells if x not in outside))))]))]),
                        indent=4))        # (the src-only variants first in document order)
        self.durable[path] = {"expected": {"compose": d["expected"]["compose"], "cells": exp_cells}, "bytes": self.fs.get(path),
                              "clean": True, "legacy": True, "legacy_version": ver, "legacy_prop": op.get("tag", "C05"),
                              "source": "downgrade", "kw": {}}
        if outside:
            CTX.probe("c10.src_only_variant_in_document")
            partial = {"compose": d["expected"]["compose"]}
            for v, arches in exp_cells.items():
                partial["cells/" + v] = arches
            self.durable[path]["expected"] = None
            self.durable[path]["partial"] = partial
        return "downgraded:%s:%d" % (ver, moved)

    def model_from_expected(self, s, expected):
        m = {"compose": dict(expected["compose"]), "version": CURRENT, "imgs": {}, "cells": {},
             "legacy_collision": "legacy-load" if collisions(expected["cells"]) else False, "version_origin": "loaded"}
        n = 0
        d = self.durable.get(getattr(self, "_restart_path", None)) or {}
        aux = d.get("aux") if s is not None else None
        used = set()
        for variant in sorted(expected["cells"]):
            for arch in sorted(expected["cells"][variant]):
                names = (aux or {}).get(variant, {}).get(arch)
                for k, img in enumerate(expected["cells"][variant][arch]):
                    iid = "L%d" % n
                    n += 1
                    if names is not None and len(names) == len(expected["cells"][variant][arch]):
                        # keep the handle the history used (after a restart every cell holds its own object: a handle
                        # that was filed in several cells stays with the first one)
                        iid = names[k] if names[k] not in used else "%s@%s/%s" % (names[k], variant, arch)
                    used.add(iid)
                    m["imgs"][iid] = copy.deepcopy(img)
                    m["cells"].setdefault(variant, {}).setdefault(arch, []).append(iid)
        return m

    def model_from_observation(self, obs):
        return self.model_from_expected(None, obs)

    def order_ambiguous(self, observed):
        # C02/C08 quantify over cells whose images have DISTINCT paths (the writer sorts a cell by path)
        for arches in observed["cells"].values():
            for imgs in arches.values():
                paths = [i["path"] for i in imgs]
                if len(set(map(str, paths))) != len(paths):
                    return True
        return False

    def rebind(self, s):
        s.pool = {}
        if s.tainted:
            return
        for variant in sorted(s.model["cells"]):
            for arch in sorted(s.model["cells"][variant]):
                live = sorted(s.obj.images[variant][arch], key=lambda i: cjson(observe_image(i)))
                for iid, img in zip(s.model["cells"][variant][arch], live):
                    s.pool[iid] = img

    def op_restart(self, op):
        s = self.slot(op)
        self._restart_path = self.path(op)
        r = FormatMachine.op_restart(self, op)
        d = self.durable.get(self.path(op)) or {}
        if r == "restarted-unspec" and d.get("must") == "accept" and d.get("must_prop") == "C09":
            s.model["legacy_collision"] = "legacy-load"
            CTX.probe("c09.legacy_document_with_collision_loaded")
        if r in ("restarted", "upgraded"):
            self.check_unique(s, "after-restart")
            for variant in s.obj.images if self.watching("C10") else []:
                for arch in s.obj.images[variant]:
                    if arch in ("src", "nosrc") or arch not in rpm_arches():
                        raise Violation("C10", "C10.no_source_arch_after_load", "source-arch-key-after-load/%s" % arch, {"variant": variant})
        return r
