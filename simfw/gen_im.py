"""Generators for M-IM."""
from . import pools
from .pools import pick, subset, hexstr

VARIANTS = ["Server", "Client", "Workstation", "Server-optional", "Cloud"]
SUBVARIANTS = ["Server", "KDE", "Workstation", "", "LXDE"]


def gen_image(rng, n, arch=None, small_identity=False):
    itype = pick(rng, ["dvd", "boot", "qcow2"]) if small_identity else pick(rng, pools.IMAGE_TYPES)
    fmts = pools.IMAGE_TYPE_FORMAT[itype] or pools.IMAGE_FORMATS
    fmt = pick(rng, fmts)
    arch = arch or pick(rng, pools.ARCHES + ["src"])
    unified = rng.random() < 0.2
    path = "%s/%s/img-%d.%s" % (pick(rng, VARIANTS), arch, n, fmt)
    if rng.random() < 0.12:
        # names that differ from each other ONLY in one non-ASCII character (same length, same position)
        path = "Server/iso/Fedora-%sdition%s.iso" % ("\u00e9\u00fc\u00f6\u00e0\u00f1\u4e2d\u00e7\u00e5"[n % 8], "" if n < 8 else str(n // 8))
    img = {
        "path": path,
        "mtime": pools.anyint(rng, [0, 1410855216, 2 ** 31 + 5, 1], big=0.06),
        "size": pools.anyint(rng, [1, 4603248640, 2 ** 40 + 7, 512]),
        "volume_id": rng.choice([None, "Fedora 20 x86_64", "V" * 32, "ünï", "Fedora-\udcff-Live", " padded ", "tail ", " ", "two  blanks"]),
        "type": itype, "format": fmt, "arch": arch,
        "disc_number": rng.choice([1, 1, 2, 3, 10, 11]), "disc_count": rng.choice([1, 3, 12]),
        "checksums": dict((t, hexstr(rng, {"md5": 32, "sha1": 40, "sha256": 64, "sha512": 128}[t]))
                          for t in subset(rng, pools.CHECKSUM_TYPES, 1, 3)),
        "implant_md5": rng.choice([None, hexstr(rng, 32)]),
        "bootable": rng.random() < 0.5,
        "subvariant": pick(rng, SUBVARIANTS),
        "unified": unified,
        "additional_variants": subset(rng, VARIANTS, 0, 3) if unified else [],
    }
    if rng.random() < 0.08:
        # legal, not normal-form paths: kept verbatim
        img["path"] = pick(rng, ["%s//x-%d.iso", "./%s/x-%d.iso", "%s/d/../x-%d.iso", "%s/dir-%d/", "%s/./x-%d.iso"]) % (pick(rng, VARIANTS), n)
    if rng.random() < 0.15:
        # digests as some tools print them (upper case), an algorithm name in another spelling: kept verbatim
        img["checksums"] = dict(((t.upper() if rng.random() < 0.3 else t), v.upper()) for t, v in img["checksums"].items())
    return img


def gen_content(rng, max_images=8, unique=True):
    """Abstract images manifest: pool of images + cell assignment.  With unique=True no two pool
    images share the documented identity (so every add must be accepted on >= 1.1)."""
    rel = {"short": pick(rng, pools.SHORTS), "version": pick(rng, pools.VERSIONS_NUM)}
    K = {"compose": pools.compose(rng, rel), "imgs": [], "cells": []}
    seen = set()
    n = rng.randint(1, max_images)
    tries = 0
    while len(K["imgs"]) < n and tries < 50:
        tries += 1
        img = gen_image(rng, len(K["imgs"]))
        key = (img["subvariant"], img["type"], img["format"], img["arch"], img["disc_number"], img["unified"],
               tuple(img["additional_variants"]))
        if unique and key in seen:
            continue
        seen.add(key)
        K["imgs"].append(img)
    if rng.random() < 0.15:
        # a whole manifest of names that differ ONLY in one non-ASCII character (same length, same position)
        for i, img in enumerate(K["imgs"]):
            img["path"] = "Server/iso/Fedora-%sdition%s.iso" % ("\u00e9\u00fc\u00f6\u00e0\u00f1\u4e2d\u00e7\u00e5"[i % 8], "" if i < 8 else str(i // 8))
    elif rng.random() < 0.1:
        # the same FILE NAME in different directories (spins): only the directory part tells the paths apart
        for i, img in enumerate(K["imgs"]):
            img["path"] = "Spins/%s/%s/images/boot.iso" % (img["arch"], ["KDE", "Xfce", "LXDE", "MATE", "SoaS", "Cinnamon"][i % 6] + ("" if i < 6 else str(i // 6)))
    # the same content under a second name (hard link / copy): equal identity AND equal checksums, other path/mtime/size
    for i in range(len(K["imgs"])):
        if rng.random() < 0.15:
            twin = dict(K["imgs"][i])
            twin["checksums"] = dict(twin["checksums"])
            twin["additional_variants"] = list(twin["additional_variants"])
            twin["path"] = twin["path"] + ".twin%d" % len(K["imgs"])
            twin["mtime"] = twin["mtime"] + 1
            if rng.random() < 0.5:
                twin["volume_id"] = "twin"
            K["imgs"].append(twin)
    # near twins: another image (own path, own checksums) that differs from an existing one in EXACTLY ONE identity
    # attribute - legal, and the sharpest test of anything keyed on a partial identity
    for i in range(len(K["imgs"])):
        if rng.random() < 0.2:
            src = K["imgs"][i]
            t = dict(src)
            t["checksums"] = dict((k, hexstr(rng, len(v))) for k, v in src["checksums"].items())
            t["additional_variants"] = list(src["additional_variants"])
            t["path"] = src["path"] + ".near%d" % len(K["imgs"])
            attr = pick(rng, ["subvariant", "disc_number", "additional_variants", "unified", "arch", "format"])
            if attr == "subvariant":
                t["subvariant"] = src["subvariant"] + "X"
            elif attr == "disc_number":
                t["disc_number"] = src["disc_number"] + 1
            elif attr == "additional_variants":
                if not src["unified"]:
                    src["unified"] = True          # both unified, they differ only in the additional variants
                    t["unified"] = True
                t["additional_variants"] = list(src["additional_variants"]) + [pick(rng, VARIANTS)]
            elif attr == "unified":
                t["unified"] = not src["unified"]
                if not t["unified"]:
                    t["additional_variants"] = []
            elif attr == "arch":
                t["arch"] = pick(rng, [a for a in pools.ARCHES + ["src"] if a != src["arch"]])
            else:
                t["format"] = pick(rng, [f for f in pools.IMAGE_FORMATS if f != src["format"]])
            key = (t["subvariant"], t["type"], t["format"], t["arch"], t["disc_number"], t["unified"], tuple(t["additional_variants"]))
            if not unique or key not in seen:
                seen.add(key)
                seen.add((src["subvariant"], src["type"], src["format"], src["arch"], src["disc_number"], src["unified"], tuple(src["additional_variants"])))
                K["imgs"].append(t)
    variants = subset(rng, VARIANTS, 1, 3)
    cell_arches = pools.ARCHES if rng.random() < 0.8 else pools.ARCHES + ["noarch", "ia64", "riscv64", "loongarch64", "armv7hl", "amd64", "arm64"] + \
        [pick(rng, [a for a in pools.RPM_ARCHES_DOC if a not in ("src", "nosrc")])]
    for i, img in enumerate(K["imgs"]):
        ncells = rng.choice([1, 1, 1, 2, 3])
        for _ in range(ncells):
            K["cells"].append((pick(rng, variants), pick(rng, cell_arches), i))
    K["cells"] = sorted(set(K["cells"]))
    # distinct images may legitimately share a PATH as long as they never meet in one cell (the same file
    # described under two variants with, say, another subvariant)
    cells_of = {}
    for v, a, i in K["cells"]:
        cells_of.setdefault(i, set()).add((v, a))
    for j in range(1, len(K["imgs"])):
        if rng.random() < 0.25:
            i = rng.randrange(j)
            if not (cells_of.get(i, set()) & cells_of.get(j, set())):
                # keep "distinct paths per cell": nobody already sharing this path may sit in one of j's cells
                clash = any(K["imgs"][k]["path"] == K["imgs"][i]["path"] and (cells_of.get(k, set()) & cells_of.get(j, set()))
                            for k in range(len(K["imgs"])) if k != j)
                if not clash:
                    K["imgs"][j]["path"] = K["imgs"][i]["path"]
    return K


def build_ops(K, rng, slot=0, version="1.2", permute=True, iid_base=0):
    sl = {"slot": slot} if slot else {}
    ops = []
    if version == "1.2" and rng.random() < 0.5:
        version = None        # nothing is assigned: a new manifest IS a current-format manifest
    o = {"op": "im_init", "compose": dict(K["compose"]), "version": version}
    o.update(sl)
    ops.append(o)
    order = list(range(len(K["imgs"])))
    if permute:
        rng.shuffle(order)
    renamed = None
    if K["cells"] and permute and rng.random() < 0.15:
        renamed = pick(rng, K["cells"])[2]       # this image is filed under a provisional name, renamed, and filed again
    for i in order:
        o = {"op": "img_new", "iid": iid_base + i, "attrs": dict(K["imgs"][i])}
        if i == renamed:
            o["attrs"]["path"] = "incoming/upload-%d.part" % i
        if rng.random() < 0.3:
            o["inplace"] = [f for f in ("checksums", "additional_variants") if rng.random() < 0.7]
        elif permute and len(K["imgs"][i].get("checksums") or {}) > 1 and rng.random() < 0.3:
            o["ck_order"] = rng.randrange(1 << 30)       # the caller's mapping is an OrderedDict filled in this order
        o.update(sl)
        ops.append(o)
    cells = list(K["cells"])
    if permute:
        rng.shuffle(cells)
    for variant, arch, i in cells:
        o = {"op": "img_add", "variant": variant, "arch": arch, "iid": iid_base + i}
        o.update(sl)
        ops.append(o)
    if cells and permute and rng.random() < 0.12:
        # somebody offers an image that collides with a filed one (same identity, other checksums): refused, nothing changes
        variant, arch, i = pick(rng, cells)
        clone = dict(K["imgs"][i])
        clone["checksums"] = dict((k, hexstr(rng, len(v))) for k, v in (clone.get("checksums") or {"md5": "0" * 32}).items())
        clone["additional_variants"] = list(clone.get("additional_variants") or [])
        clone["path"] = str(clone["path"]) + ".offer"
        o = {"op": "img_new", "iid": iid_base + 950, "attrs": clone}
        o.update(sl)
        ops.append(o)
        o = {"op": "img_add", "variant": pick(rng, [variant, "Offered"]), "arch": arch, "iid": iid_base + 950}
        o.update(sl)
        ops.append(o)
    if renamed is not None:
        o = {"op": "img_set", "iid": iid_base + renamed, "field": "path", "value": K["imgs"][renamed]["path"]}
        o.update(sl)
        ops.append(o)
        for variant, arch, i in cells:
            if i == renamed:
                o = {"op": "img_add", "variant": variant, "arch": arch, "iid": iid_base + i}      # the same object, the same cell: nothing to do
                o.update(sl)
                ops.append(o)
    if K["imgs"] and rng.random() < 0.15:
        # an image object is filed while still blank and filled in afterwards (its place in the cell must not depend
        # on what it held at the moment of add())
        late = {"op": "img_new", "iid": iid_base + 900, "attrs": {}}
        late.update(sl)
        ops.append(late)
        v, a = (cells[0][0], cells[0][1]) if cells else ("Server", "x86_64")
        o = {"op": "img_add", "variant": v, "arch": a, "iid": iid_base + 900}
        o.update(sl)
        ops.append(o)
        src = dict(K["imgs"][0])
        src["path"] = src["path"] + ".late"
        src["subvariant"] = src["subvariant"] + "-late"
        fields = list(src.items())
        rng.shuffle(fields)
        for f, val in fields:
            o = {"op": "img_set", "iid": iid_base + 900, "field": f, "value": val}
            o.update(sl)
            ops.append(o)
    return ops


def valid_mutation(K, rng, slot=0):
    sl = {"slot": slot} if slot else {}
    r0 = rng.random()
    if K["cells"] and r0 < 0.12:
        v, a, i = pick(rng, K["cells"])
        o = {"op": "img_remove", "variant": v, "arch": a, "iid": i}
        o.update(sl)
        return o
    if K["imgs"] and r0 < 0.22:
        i = rng.randrange(len(K["imgs"]))
        o = {"op": "img_inplace", "iid": i, "how": "checksums.set", "key": pick(rng, ["md5", "sha1", "sha256", "crc"]), "value": hexstr(rng, 8)}
        o.update(sl)
        return o
    if K["imgs"] and rng.random() < 0.6:
        i = rng.randrange(len(K["imgs"]))
        f, v = pick(rng, [("mtime", rng.randint(5, 10 ** 9)), ("size", rng.randint(5, 10 ** 12)), ("volume_id", "changed"),
                          ("bootable", rng.random() < 0.5), ("path", "moved/img-%d" % i)])
        o = {"op": "img_set", "iid": i, "field": f, "value": v}
    elif rng.random() < 0.3:
        o = {"op": "im_set", "field": "label", "value": None if K["compose"].get("label") else pick(rng, ["RC-1.0", "Beta-2.3"])}
    else:
        o = {"op": "im_set", "field": "respin", "value": rng.randint(3, 9)}
    o.update(sl)
    return o


IMG_POISON = [
    ("path", [None, "", 5]),
    ("mtime", [None, "1", 1.5]),
    ("size", [None, "10", 2.5]),
    ("volume_id", ["", 5]),
    ("type", [None, "DVD", "iso", ""]),
    ("format", [None, "ISO", "dvd", ""]),
    ("arch", [None, "", 5]),
    ("disc_number", [None, "1", 1.0]),
    ("disc_count", [None, "1", 1.0]),
    ("checksums", [None, {}, [], "abc"]),
    ("implant_md5", ["", "xyz", "A" * 32, "a" * 31, "a" * 33, 5]),
    ("bootable", [None, "true", 1]),
    ("subvariant", [None, 5]),
    ("unified", [None, "false", 0]),
    ("additional_variants", [None, "Server"]),
]
COMPOSE_POISON = [
    ("id", [None, 123, "", "abc"]),
    ("date", [None, 20150522, "2015", "2015052a", "2015052", "201552", "20150522 "]),
    ("type", [None, "prod", "Production"]),
    ("respin", [None, "0", 1.5]),
    ("label", pools.LABELS_BAD),
]


def poison_sites(K, used_only=True):
    sites = []
    for f, bads in COMPOSE_POISON:
        for b in pools.with_generic(bads):
            sites.append({"kind": "compose", "field": f, "bad": b, "good": K["compose"][f]})
    used = sorted(set(i for _, _, i in K["cells"]))
    for i in used:
        img = K["imgs"][i]
        for f, bads in IMG_POISON:
            for b in pools.with_generic(bads):
                sites.append({"kind": "img", "iid": i, "field": f, "bad": b, "good": img[f]})
        if not img["unified"]:
            sites.append({"kind": "img", "iid": i, "field": "additional_variants", "bad": ["Server"], "good": img["additional_variants"]})
            sites.append({"kind": "img-inplace", "iid": i, "how": "additional_variants.append", "value": "Server", "field": "additional_variants", "good": img["additional_variants"]})
        sites.append({"kind": "img-inplace", "iid": i, "how": "checksums.clear", "field": "checksums", "good": img["checksums"]})
    return sites


def poison_ops(site, slot=0, iid_base=0):
    sl = {"slot": slot} if slot else {}
    if site["kind"] == "compose":
        p = {"op": "im_set", "field": site["field"], "value": site["bad"]}
        h = {"op": "im_set", "field": site["field"], "value": site["good"]}
    elif site["kind"] == "img-inplace":
        # corrupt WITHOUT an attribute assignment (the object mutates one of its mutable fields in place)
        p = {"op": "img_inplace", "iid": iid_base + site["iid"], "how": site["how"], "value": site.get("value")}
        h = {"op": "img_set", "iid": iid_base + site["iid"], "field": site["field"], "value": site["good"]}
    else:
        p = {"op": "img_set", "iid": iid_base + site["iid"], "field": site["field"], "value": site["bad"]}
        h = {"op": "img_set", "iid": iid_base + site["iid"], "field": site["field"], "value": site["good"]}
    p.update(sl)
    h.update(sl)
    return p, h


# ---- C09: small identity pool ----------------------------------------------------------------------
def gen_c09_pool(rng, n_ident=5):
    """~n_ident identity tuples x 2-3 checksum values; every image has its own path.  Some identities
    differ from a sibling in exactly one of the seven identity attributes."""
    base = gen_image(rng, 0, arch=pick(rng, pools.ARCHES + ["src", "arm64", "amd64"]), small_identity=True)
    idents = [base]
    while len(idents) < n_ident:
        src = dict(pick(rng, idents))
        attr = pick(rng, ["subvariant", "type", "format", "arch", "disc_number", "unified", "additional_variants"])
        if attr == "subvariant":
            if rng.random() < 0.3 and isinstance(src["subvariant"], str) and src["subvariant"] == src["subvariant"].strip() and src["subvariant"]:
                src["subvariant"] = src["subvariant"] + pick(rng, [" ", "  ", "\t"])       # a twin that differs by a trailing blank only
            else:
                src["subvariant"] = pick(rng, [s for s in SUBVARIANTS if s != src["subvariant"]])
        elif attr == "type":
            src["type"] = pick(rng, [t for t in ["dvd", "boot", "cd", "netinst", "live"] if t != src["type"]])
        elif attr == "format":
            src["format"] = pick(rng, [f for f in ["iso", "qcow2", "raw.xz"] if f != src["format"]])
        elif attr == "arch":
            src["arch"] = pick(rng, [a for a in pools.ARCHES + ["src", "arm64", "amd64", "noarch", "i686"] if a != src["arch"]])
        elif attr == "disc_number":
            src["disc_number"] = src["disc_number"] + 1
        elif attr == "unified":
            src["unified"] = not src["unified"]
            if not src["unified"]:
                src["additional_variants"] = []
        else:
            src["unified"] = True
            src["additional_variants"] = list(src["additional_variants"]) + [pick(rng, VARIANTS)]
        idents.append(src)
    imgs = []
    for ident in idents:
        sums = [dict((t, hexstr(rng, 8)) for t in subset(rng, ["md5", "sha256"], 1, 2)) for _ in range(rng.randint(1, 3))]
        for c in sums:
            for rep in range(rng.choice([1, 1, 2])):
                img = dict(ident)
                img["checksums"] = dict(c)
                img["additional_variants"] = list(ident["additional_variants"])
                img["path"] = "p/img-%d.iso" % len(imgs)
                # what is NOT part of the identity varies freely between images of one identity
                if rng.random() < 0.4:
                    f = pick(rng, ["disc_count", "bootable", "mtime", "size", "volume_id", "implant_md5"])
                    img[f] = {"disc_count": img["disc_count"] + rng.randint(1, 2), "bootable": not img["bootable"], "mtime": img["mtime"] + 7,
                              "size": img["size"] + 7, "volume_id": "other vol", "implant_md5": hexstr(rng, 32)}[f]
                imgs.append(img)
    return imgs


def gen_c10_content(rng, max_variants=3):
    """Canonical current-format layout: binary images under their own arch, source images (arch 'src')
    under EVERY binary arch of their variant - so that a 1.0/1.1 down-conversion with a 'src' key is
    the exact inverse of the documented upgrade."""
    rel = {"short": pick(rng, pools.SHORTS), "version": pick(rng, pools.VERSIONS_NUM)}
    K = {"compose": pools.compose(rng, rel), "imgs": [], "cells": []}
    seen = set()

    def fresh(arch):
        for _ in range(30):
            img = gen_image(rng, len(K["imgs"]), arch=arch)
            img["unified"] = False
            img["additional_variants"] = []
            key = (img["type"], img["format"], img["arch"], img["disc_number"])     # unique even without subvariant
            if key not in seen:
                seen.add(key)
                K["imgs"].append(img)
                return len(K["imgs"]) - 1
        return None
    for variant in subset(rng, VARIANTS, 1, max_variants):
        arches = subset(rng, pools.ARCHES, 1, 3)
        for a in arches:
            for _ in range(rng.randint(0, 2)):
                i = fresh(a)
                if i is not None:
                    K["cells"].append((variant, a, i))
        for _ in range(rng.randint(0, 2)):
            i = fresh("src")
            if i is not None:
                for a in arches:
                    K["cells"].append((variant, a, i))
    K["cells"] = sorted(set(K["cells"]))
    return K
