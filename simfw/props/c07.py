"""C07 - documents violating a documented constraint are rejected on load.

The simulation reading: the stored copy is damaged between the write and the next restart.  Run: history ->
dump -> for every corruption of the stored document (structured: one field anywhere out of its documented
domain, header type of another format, mangled version, required key/section deleted; unstructured: byte
flips, truncation, duplicated block, garbage, non-UTF-8): restart via path / handle / loads.
Structured -> the load must raise; unstructured -> raises, or the returned object passes the independent
constraint table and can be dumped.
"""
from ..kits import KITS, FORMATS
from ..pools import pick

ID = "C07"
LEVEL = "fault_enumeration"
RUNS = {"quick": 1400, "thorough": 28000}
REQUIRED_FAULTS = ["F3.structured_damage", "F4.unstructured_damage"]
MACHINES = FORMATS


def generate(rng, tier, idx):
    kit = KITS[FORMATS[idx % len(FORMATS)]]
    K = kit.content(rng, tier)
    ops = kit.build(K, rng)
    ops.append(kit.dump_op(K, rng))
    ops.append({"op": "c07_enum", "path": kit.path, "cap": 48 if tier == "quick" else None})
    if rng.random() < 0.3:
        ops.append(kit.mutation(K, rng))
        ops.append(kit.dump_op(K, rng))
        ops.append({"op": "c07_enum", "path": kit.path, "cap": 24 if tier == "quick" else None})
    ops.append({"op": "restart", "path": kit.path, "via": pick(rng, ["path", "handle", "loads"]), "offset": rng.randint(0, 300)})
    return {"machine": kit.machine, "cfg": kit.cfg(rng), "ops": ops}
