"""C02 - image manifests survive a write/read cycle (persistence invariant of M-IM)."""
from .. import gen_im
from ..kits import KITS
from ..pools import pick

ID = "C02"
LEVEL = "exploration"
RUNS = {"quick": 3000, "thorough": 150000}
REQUIRED_FAULTS = ["F9.restart_path", "F9.restart_handle", "F9.restart_loads"]
MACHINES = ["M-IM"]


def generate(rng, tier, idx):
    K = gen_im.gen_content(rng, max_images=8 if tier == "quick" else 14)
    ops = gen_im.build_ops(K, rng)
    path = "/sim/d/images.json"
    for cycle in range(rng.randint(1, 3)):
        ops.append({"op": "dump", "path": path})
        if rng.random() < 0.8:      # else: the live object goes on being used after it was written
            ops.append({"op": "restart", "path": path, "via": pick(rng, ["path", "handle", "loads"]), "offset": rng.randint(0, 3000)})
        if cycle == 0:
            for _ in range(rng.randint(0, 3)):
                ops.append(gen_im.valid_mutation(K, rng))
    ops.append({"op": "dump", "path": path})
    ops.append({"op": "restart", "path": path, "via": "path"})
    _machine = "M-IM"
    if rng.random() < 0.4:
        ops.extend(KITS[_machine].disturbance(K, rng))
        ops.append({"op": "dump", "path": path})
        ops.append({"op": "restart", "path": path, "via": "path"})
    if rng.random() < 0.25:
        # a bystander object with other content lives next to the main one
        b_build, b_final = KITS[_machine].bystander(rng, tier)
        cut = rng.randint(1, len(ops))
        ops = ops[:cut] + b_build + ops[cut:] + b_final + [o for o in ops[-2:] if o["op"] in ("dump", "restart")]
    return {"machine": "M-IM", "cfg": {"simset": pick(rng, ["insertion", "shuffle", "reverse", "sorted"])}, "ops": ops}
