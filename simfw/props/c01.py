"""C01 - composeinfo survives a write/read cycle.

Objects are reached by API histories (permuted add order, path tables set before/after the
add, redundant re-assignments), persisted to SimFS and reloaded by path / by open handle at a
random offset / by loads(); the reloaded object must equal the documented content (with the
documented normalisations applied in the MODEL) and re-dump byte-identically; then the
history continues on the restarted object and the cycle repeats.
"""
from .. import gen_ci
from ..kits import KITS
from ..pools import pick

ID = "C01"
LEVEL = "exploration"
RUNS = {"quick": 4500, "thorough": 150000}
REQUIRED_FAULTS = ["F9.restart_path", "F9.restart_handle", "F9.restart_loads"]
MACHINES = ["M-CI"]


def generate(rng, tier, idx):
    K = gen_ci.gen_content(rng, max_vars=7, max_depth=3)
    ops = gen_ci.build_ops(K, rng, noise=0.1)
    path = "/sim/d/composeinfo.json"
    for cycle in range(rng.randint(1, 3)):
        ops.append({"op": "dump", "path": path})
        if rng.random() < 0.2:
            ops.append({"op": "ci_rewrite_type_case", "path": path, "how": pick(rng, ["upper", "title"])})
        if rng.random() < 0.8:      # else: the live object goes on being used after it was written
            ops.append({"op": "restart", "path": path, "via": pick(rng, ["path", "handle", "loads"]), "offset": rng.randint(0, 2000)})
        if rng.random() < 0.5:
            ops.append({"op": "restart", "path": path, "via": pick(rng, ["path", "handle", "loads"]), "offset": rng.randint(0, 2000)})
        for _ in range(rng.randint(0, 3)):
            ops.append(gen_ci.valid_mutation(K, rng))
        if rng.random() < 0.3:
            ops.append({"op": "forest_check"})
    ops.append({"op": "dump", "path": path})
    ops.append({"op": "restart", "path": path, "via": "path"})
    _machine = "M-CI"
    if rng.random() < 0.4:
        ops.extend(KITS[_machine].disturbance(K, rng))
        ops.append({"op": "dump", "path": path})
        ops.append({"op": "restart", "path": path, "via": "path"})
    if rng.random() < 0.25:
        # a bystander object with other content lives next to the main one
        b_build, b_final = KITS[_machine].bystander(rng, tier)
        cut = rng.randint(1, len(ops))
        ops = ops[:cut] + b_build + ops[cut:] + b_final + [o for o in ops[-2:] if o["op"] in ("dump", "restart")]
    return {"machine": "M-CI", "cfg": {"simset": pick(rng, ["insertion", "shuffle", "reverse", "sorted"])}, "ops": ops}
