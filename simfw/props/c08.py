"""C08 - serialisation is canonical: output depends on content only.

One abstract content K is BUILT k = 2-4 TIMES by different histories (permuted insertion order of every
unordered part, redundant calls interleaved, once via restart), with SimSet adversarial or identity-ordered,
each build dumped several times: all byte strings must be equal; format checks by independent code on every
text (JSON == json.dumps(json.loads(text), indent=4, sort_keys=True, separators=(',', ': ')); INI sections and
options sorted, case preserved).  A sample of the cases is then re-executed in FRESH INTERPRETERS under
several PYTHONHASHSEED values WITH THE REAL set (nothing stubbed but the disk) and the hashes of all dumps
are compared.
"""
import json
import os
import subprocess
import sys
import tempfile

from ..kits import KITS, FORMATS
from ..pools import pick
from .. import core

ID = "C08"
LEVEL = "exploration"
RUNS = {"quick": 4200, "thorough": 70000}
REQUIRED_FAULTS = ["F7.simset_permuted_iteration", "F7.real_hashseed_sweep"]
MACHINES = FORMATS
SWEEP = {"quick": (210, [0, 1, 77]), "thorough": (2800, [0, 1, 2, 3, 1234, 99999, 424242, 31337])}


def generate(rng, tier, idx, real_set=False):
    kit = KITS[FORMATS[idx % len(FORMATS)]]
    K = kit.content(rng, tier)
    nslots = rng.randint(2, 4)
    ops = []
    via_restart = rng.randrange(nslots) if rng.random() < 0.6 else None
    for slot in range(nslots):
        ops.extend(kit.build(K, rng, slot=slot, permute=slot > 0 or rng.random() < 0.5))
        if slot == via_restart:
            p = kit.path + ".s%d" % slot
            d = kit.dump_op(K, rng, slot, main_variant="random")      # what the file names as main variant is not content
            d["path"] = p
            d.pop("to", None)
            ops.append(d)
            ops.append({"op": "restart", "path": p, "slot": slot, "via": pick(rng, ["path", "handle", "loads"]), "offset": rng.randint(0, 200)})
        if rng.random() < 0.4:
            ops.append({"op": "redump_same", "slot": slot, "n": rng.randint(2, 3)})
        if kit.machine == "M-XF" and rng.random() < 0.5:
            # a per-tree document was produced from this object in between (a read-only operation)
            from .. import gen_mf
            for _ in range(rng.randint(1, 2)):
                o = gen_mf.dump_for_tree_op(rng, sorted(set(a["variant"] for a in K["adds"])) or ["Server"], sorted(set(a["arch"] for a in K["adds"])) or ["x86_64"])
                o["slot"] = slot
                ops.append(o)
    # "...or on how often the object was dumped before": in half of the runs the builds are NOT all dumped before the
    # common mutation, so that slots with and without a dump history are compared afterwards
    if not real_set and rng.random() < 0.3:
        # ...nor on whether a write of this object was REFUSED once: the first build is made invalid at one place, its dump is
        # refused, the value is put back - it holds the same content as its twins again and is written as they are
        sites = kit.sites(K)
        if sites:
            pz, heal = kit.poison(pick(rng, sites))
            ops.append(pz)
            d = kit.dump_op(K, rng, 0, main_variant="random")
            d["path"] = kit.path + ".refused"
            d.pop("to", None)
            ops.append(d)
            ops.append(heal)
    first_cmp = rng.random() < 0.5
    if first_cmp:
        ops.append({"op": "cmp_slots"})
    # mutate every slot the same way, compare again
    m = kit.mutation(K, rng)
    if m["op"] != "add":
        for slot in range(nslots):
            mm = dict(m)
            if slot:
                mm["slot"] = slot
            ops.append(mm)
        ops.append({"op": "cmp_slots"})
    elif not first_cmp:
        ops.append({"op": "cmp_slots"})
    ops.append({"op": "dump", "path": kit.path})
    # "...not on what was at the destination before": the same path is written again after the content got shorter, or
    # after somebody else left a longer file there
    r = rng.random()
    if r < 0.35:
        sh = kit.shrink(K, rng)
        if sh is not None:
            ops.append(sh)
            ops.append({"op": "dump", "path": kit.path})
    elif r < 0.55:
        ops.append({"op": "fs_clobber", "path": kit.path, "how": pick(rng, ["longer", "garbage", "json"])})
        ops.append({"op": "dump", "path": kit.path})
    elif r < 0.75:
        # the destination already holds the SAME content, re-saved by another tool in its own formatting
        ops.append({"op": "fs_reorder_json", "path": kit.path, "seed": rng.randrange(1 << 30), "how": pick(rng, ["shuffle", "reverse"])})
        ops.append({"op": "dump", "path": kit.path})
    cfg = kit.cfg(rng)
    if real_set:
        cfg["real_set"] = True
    return {"machine": kit.machine, "cfg": cfg, "ops": ops}


def _hashes_under(cases, hashseed):
    fd, path = tempfile.mkstemp(prefix="c08-cases-", suffix=".json")
    try:
        with os.fdopen(fd, "w") as f:
            json.dump(cases, f)
        env = dict(os.environ)
        env["PYTHONHASHSEED"] = str(hashseed)
        p = subprocess.run([sys.executable, os.path.join(core.VERIF, "simfw", "main.py"), "C08", "--hashes", path],
                           env=env, stdout=subprocess.PIPE, stderr=subprocess.PIPE, timeout=3000)
        if p.returncode != 0:
            raise core.HarnessError("hash-seed sub-run failed: %s" % p.stderr.decode("utf-8", "replace")[-1500:])
        return json.loads(p.stdout.decode("utf-8").strip().split("\n")[-1])
    finally:
        os.unlink(path)


def _real_cases(tier, seed, n):
    import random
    from ..util import mix
    cases = []
    for idx in range(n):
        rs = mix(seed, "C08-real", idx)
        case = generate(random.Random(rs), tier, idx, real_set=True)
        case["cfg"]["order_seed"] = rs & 0xFFFFFFFF
        case["cfg"]["focus"] = "C08"
        cases.append(json.loads(core.cjson(case)))
    return cases


def post_batch(tier, seed, total, extra):
    n, seeds = SWEEP[tier]
    cases = _real_cases(tier, seed, n)
    from concurrent.futures import ThreadPoolExecutor
    with ThreadPoolExecutor(max_workers=min(8, len(seeds))) as ex:
        results = list(ex.map(lambda hs: _hashes_under(cases, hs), seeds))
    viols = []
    ndumps = 0
    for i, case in enumerate(cases):
        base = results[0][i]
        ndumps += len(base["hashes"])
        for hs, res in zip(seeds[1:], results[1:]):
            r = res[i]
            bad = None
            if r["violation"] is not None and r["violation"]["property"] == "C08":
                bad = r["violation"]
            elif base["violation"] is not None and base["violation"]["property"] == "C08":
                bad = base["violation"]
            elif r["hashes"] != base["hashes"] and r["violation"] is None and base["violation"] is None:
                bad = {"property": "C08", "invariant": "C08.bytes_independent_of_hash_seed",
                       "cause_key": "bytes-differ-across-hashseeds/%s" % case["machine"],
                       "detail": {"hashseeds": [seeds[0], hs], "first_differing_dump": next(
                           (j for j, (a, b) in enumerate(zip(base["hashes"], r["hashes"])) if a != b), None)}}
            if bad is not None:
                path = os.path.join(os.environ.get("VERIF_REPLAY_DIR") or os.path.join(core.VERIF, "replays"), "C08-hashseed-%d-%d.json" % (seed, i))
                os.makedirs(os.path.dirname(path), exist_ok=True)
                with open(path, "w") as f:
                    json.dump({"mode": "hashseed", "property": "C08", "case": case, "hashseeds": [seeds[0], hs], "violation": bad,
                               "original_seed": seed, "run_index": i}, f, indent=1, sort_keys=True)
                viols.append({"violation": bad, "replay": path})
                break
        if len(viols) >= 3:
            break
    total["faults"]["F7.real_hashseed_sweep"] = len(cases) * len(seeds)
    extra["real_hashseed_sweep"] = {"cases": len(cases), "hashseeds": seeds, "dumps_compared_per_seed": ndumps,
                                    "stub": "disk only (real set, fresh interpreter per PYTHONHASHSEED)"}
    return viols


def replay_hashseed(doc):
    a, b = doc["hashseeds"]
    ra = _hashes_under([doc["case"]], a)[0]
    rb = _hashes_under([doc["case"]], b)[0]
    for r in (ra, rb):
        if r["violation"] is not None:
            return r["violation"]
    if ra["hashes"] != rb["hashes"]:
        return doc["violation"]
    return None
