#!/venv/bin/python
"""Regenerates /verif/MANIFEST.json from the table below (so it is valid at all times)."""
import json, os, sys
VERIF = os.path.dirname(os.path.dirname(os.path.abspath(__file__)))

TECH = "deterministic simulation with fault injection"
CHECKS = {
 "C01": ("exploration", "Persistence invariant of the simulated composeinfo node: seeded API histories (permuted add order, path tables, layered-product variants, dashed UIDs), dump to SimFS, restart by path / open handle at an offset / loads, comparison of the reloaded object with a reference model carrying the documented normalisations, byte-identical re-dump, history continues after restart.",
         "generated content + restart through the simulated disk; no fault is part of this property, so the simulation-specific share is the history/restart/SimSet machinery", TECH + " (seeded history + restart vs reference model)", "6/C01"),
 "C02": ("exploration", "Persistence invariant of the simulated images node: pool images filed into several cells (aliasing), cells are SimSets with adversarial iteration order, dump/restart cycles against a reference model of all 15 attributes, byte-identical re-dump.",
         "as C01; sizes/mtimes/ids from small pools", TECH + " (seeded history + restart vs reference model)", "6/C02"),
 "C03": ("exploration", "Rpms/Modules/ExtraFiles manifests produced by histories of add calls (refused calls interleaved) are persisted at arbitrary points; the node restarts from SimFS and keeps adding to the restarted object; payload and compose section compared with the C12 reference model, re-dump byte-identical.",
         "reference model = documented layout with an independent NEVRA / module-UID parser", TECH + " (history + restart vs reference model)", "6/C03"),
 "C04": ("exploration", "Persistence invariant of the simulated treeinfo / discinfo nodes: API histories (permuted variant/path/image/checksum insertion, dashed top-level UIDs, child variants of every type, layered releases, src trees), dump with and without main_variant, restart by path / handle / loads, comparison with a reference model, byte-identical re-dump; every .treeinfo that reaches SimFS is additionally parsed by an independent minimal INI reader.",
         "text restricted to what the INI syntax can carry, as the property's quantifier states; integer timestamps only for the byte-identical oracle", TECH + " (seeded history + restart vs reference model, independent INI reader)", "6/C04"),
 "C05": ("exploration", "The durable state was written by an older incarnation of the software: independent down-converters (composeinfo 1.1/1.0/0.3/<0.3, images 1.1/1.0, rpms 1.1/1.0/0.3, treeinfo 1.1/1.0/0.3/0.0) rewrite a document the history really wrote, and every fixture shipped in tests/ (67 .treeinfo, 77 .discinfo, 4 images, 2 composeinfo) is copied to SimFS; the node restarts on it: same facts under the documented mapping (generated content), written back with the current version and proper header type, reload identical, second write byte-identical; the history then continues across further restart cycles.",
         "rpms 0.3 and composeinfo < 0.3 have no format document in the repository (down-converter follows the property text and the reader's input shape); 0.0 treeinfo and the corpus get the idempotence oracle only", TECH + " (older durable state + restart cycles)", "6/C05"),
 "C06": ("fault_enumeration", "A hand-written table of the complement of every documented field domain is enumerated over the field locators of history-built objects of all seven formats (any variant in the forest, any image in any cell, any section; quick: a PRNG sample of <= 24 per object, thorough: all): poison -> dumps() and dump(path) must raise TypeError/ValueError and yield no text -> heal -> dump succeeds and a restart gives the model back. Converse: every dump of an un-poisoned object in every run must succeed (an independent validity predicate over the reference model decides which is which).",
         "only documented constraints are in the table; where the library is merely lax or strict about something undocumented the predicate answers UNSPECIFIED and nothing is demanded", TECH + " (enumeration of poisoned field locators inside sampled histories)", "6/C06"),
 "C07": ("fault_enumeration", "The stored copy is damaged between the write and the next restart: for a document the history really wrote, every structured corruption (one field anywhere out of its documented domain - excluding values the reader documents as coerced -, header type of another format, mangled version, required key/section deleted; thorough: all, quick: 48 evenly spread) must make load/loads raise, the < 1.1 side of the type gate must not be rejected for the type alone, and unstructured damage (byte flips, truncation, duplicated block, garbage, non-UTF-8, deleted/swapped lines) must raise or return an object that passes the independent constraint table and can be dumped.",
         "any exception type counts as rejection (the property says 'an exception'); for rpms/modules/extra-files only header and compose section are damaged", TECH + " (stored-document damage enumeration + restart)", "6/C07"),
 "C08": ("exploration", "One abstract content is built 2-4 times by different histories (permuted insertion order of every unordered part, redundant calls, once via restart), under SimSet iteration orders insertion/reverse/sorted/shuffled, each build dumped repeatedly: all byte strings equal; every text checked by independent code for canonical JSON (sorted keys, indent 4) or sorted INI sections/options; a sample of cases is re-executed in fresh interpreters under several real PYTHONHASHSEED values with the real set and the hashes of all dumps compared.",
         "SimSet controls only sets created by the name `set` in the productmd modules or handed in by the harness; C-level set results are covered by the real-hash-seed sweep only", TECH + " (iteration-order adversary + permuted histories + real hash-seed sweep)", "6/C08"),
 "C09": ("exploration", "Histories of Images.add over a small identity pool (each identity attribute varied individually, equal and different checksums, same and different cells) under header versions below/at/above 1.1, with dump/restart and colliding pairs injected into stored documents of version 1.0/1.1/1.2; invariants: refusal leaves the manifest unchanged, exactly the addressed cell gains the image, no collision in any >=1.1 live or stored manifest, collision documents rejected on load iff >=1.1, identify_image(object)==identify_image(dict).",
         "identity function and collision scan re-implemented independently; two legacy-exemption consequences are listed as known findings", TECH + " (refused-call + stored-damage histories vs model)", "6/C09"),
 "C10": ("exploration", "Refusal of every non-binary architecture class on Images.add / Rpms.add inside histories (state unchanged), re-filing of source images / source RPMs when the node restarts on a stored manifest down-converted to images 1.0/1.1 or rpms 0.3 with a 'src' key, and the invariant that no architecture key of any live object or stored payload is outside the binary subset.",
         "the 0.3 rpms shape has no format document in the repository: the down-converter follows the property text and the reader's input shape", TECH + " (older durable state + restart, refused calls)", "6/C10"),
 "C11": ("exploration", "Histories of valid and refused VariantBase.add calls (duplicate id, foreign arch, misaligned UID, bad id, blank name, unknown type, own ancestor, self), lookups and get_variants with every filter combination, dump/restart; after every add the live forest is walked from the top through public attributes (parent pointers, UID alignment, arch subsets, uniqueness, findability by UID and by id) and compared with the model; refused adds must leave the walk identical.",
         "forests of <= 7 variants, depth <= 3; adds the property is silent about (re-adding an already filed variant elsewhere) end the trust in the model for that run instead of being judged", TECH + " (refused-call histories, forest-walk invariants)", "6/C11"),
 "C12": ("exploration", "Sequences of add calls on Rpms / Modules / ExtraFiles with valid and invalid values of every parameter, compared step by step (deep equality of the whole mapping) with a reference model; refused calls must raise ValueError/TypeError and change nothing; dump_for_tree against base paths that are, are not, or only textually prefix the stored paths.",
         "argument families where the documented grammar does not decide (e.g. non-numeric text before a colon) are accepted either way and the model follows the observation", TECH + " (refused-call histories vs reference model)", "6/C12"),
 "C16": ("exploration", "(a) Checksums.add computing through the SimFS seam for file sizes straddling multiples of the 1 MiB chunk, all hashlib-guaranteed algorithms and decorated relative paths, with the read(n) sequence recorded; (b) EIO/EACCES on open and EIO at an offset inside chunk 0/1/2 must raise and leave the table unchanged; (c) stored [checksums] entries rewritten as bare digests of recognised/unrecognised lengths in every position before a restart - no path may come back with another entry's value; (d) Image.add_checksum histories with equal, different and empty values.",
         "no short reads are injected (a BufferedReader over a regular file never produces them); shake_* algorithms (need a length) are outside", TECH + " (I/O seam with read faults, stored-document damage + restart)", "6/C16"),
 "C17": ("exploration", "Invariant on every .treeinfo that reaches SimFS in histories where variants are added and removed between dumps, main_variant changes from dump to dump, float and integer timestamps alternate and platforms do or do not list the tree arch: [general] parsed by an independent INI reader must mirror release/tree/main-variant facts incl. src fallbacks; plus: the compatibility sections alone are loaded as a pre-productmd file and must show the same arch/family/version/timestamp/variant.",
         "weakest simulation content of all claimed properties: a function of the tree and one argument, checked on files the histories write anyway", TECH + " (file invariant over seeded histories)", "6/C17"),
 "C20": ("exploration", "A SimFS world is drawn per run (direct metadata/, compose/metadata/, one legacy sub-directory, each of the four files under current / legacy name / both / absent, decoys, valid or damaged content distinct per location, trailing slash, adversarial listdir order); Compose(path) is opened repeatedly under re-drawn listdir permutations, accessors are used in PRNG order and repeatedly while files are removed/replaced and read faults (EIO, EACCES, vanish-after-exists) are armed and healed; oracle: layout resolution, accessor == direct load of the expected file, loaded once then reused (I/O trace), RuntimeError naming the location, nothing cached after a failure, correct object one step after the fault is healed.",
         "where the property is silent (direct + legacy both present, several legacy directories) either answer is accepted; URLs are out of scope (network seam guarded)", TECH + " (simulated directory tree, read faults, listdir-order adversary)", "6/C20"),
 "C18": ("fault_enumeration", "Seeded simulated runs build a metadata object by an API history, persist it to the simulated disk, mutate it, and then enumerate every validator invocation of one dump (one injected failure at a time) plus real invalid values at nested locators; after each failed dump the destination bytes are compared with the last good copy (or its absence); then the fault is removed and the dump must succeed.",
         "trusts SimFS to model truncate-on-open as POSIX does; dump to an already open handle is out of scope", TECH + " (validator-fault enumeration on a simulated disk)", "6/C18"),
}
NOT_APPLICABLE = {
 "C13": "pure total function of one string (parse_nvra): no history, I/O, fault point or iteration order for a simulator to control (incidental exercise via C12 keys only)",
 "C14": "pure string functions (release-id create/parse/validators): nothing to simulate",
 "C15": "pure string/scalar functions (compose-id create/decode): nothing to simulate (incidental exercise via the <0.3 composeinfo documents of C05)",
 "C19": "performance bound: deterministic simulation decides nothing about cost; a wall-clock threshold is exactly the uncontrolled nondeterminism this technique forbids",
}
PENDING = {}

def main():
    props = [json.loads(l)["id"] for l in open(os.path.join(VERIF, "properties.jsonl"))]
    checks = []
    for pid in props:
        if pid not in CHECKS:
            continue
        level, text, note, tech, ref = CHECKS[pid]
        checks.append({"property_id": pid, "quick_cmd": "bin/check %s --tier quick" % pid,
                       "thorough_cmd": "bin/check %s --tier thorough" % pid, "evidence_file": "evidence/%s.json" % pid,
                       "replay_cmd_template": "bin/check %s --replay {path}" % pid, "engine": "simfw",
                       "level_claimed": {"category": level, "text": text, "design_ref": "DESIGN.md section " + ref},
                       "level_note": note, "technique": tech})
    na = [{"property_id": p, "reason": r} for p, r in sorted(NOT_APPLICABLE.items())]
    for pid in props:
        if pid not in CHECKS and pid not in NOT_APPLICABLE:
            na.append({"property_id": pid, "reason": PENDING.get(pid, "not claimed yet: its check is still being built (see DESIGN.md section 6); no verdict is given for it")})
    m = {"version": 1,
         "setup_cmd": "/venv/bin/python -c \"import sys; sys.path.insert(0, '/repo'); import six, productmd; print('ok', productmd.__file__)\"",
         "hooks": {"guard": "PRODUCTMD_VERIF",
                   "enable": "no source hook is needed: the simulator plants the names open/os/set and validator wrappers into the productmd modules from /verif at run start (DESIGN.md section 1); PRODUCTMD_VERIF is reserved and unused",
                   "baseline_off_cmd": "cd /repo && /venv/bin/python -m pytest -ra -q -p no:cacheprovider --timeout=900 --continue-on-collection-errors",
                   "source_commits": [], "add_only": True},
         "engines": [{"name": "simfw", "path": "simfw/", "serves_properties": [c["property_id"] for c in checks],
                      "kind_free_text": "home-grown deterministic simulator: seeded op-history generator, SimFS simulated disk, SimSet iteration-order adversary, validator fault injection, reference models, delta-debugging shrinker, JSON replay files"}],
         "checks": checks, "not_applicable": na,
         "notes": "Exit codes of bin/check: 0 property held on everything explored, 1 VIOLATION line printed, 2 harness error (never a pass). known_findings.json lists genuine defects (fixed ones with their commit, unfixed ones as KNOWN-FINDING). Fix commits in /repo start with 'fix:'."}
    with open(os.path.join(VERIF, "MANIFEST.json"), "w") as f:
        json.dump(m, f, indent=1)
    print("MANIFEST.json: %d checks, %d not_applicable" % (len(checks), len(na)))

if __name__ == "__main__":
    main()
