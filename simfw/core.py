"""Run / batch / shrink / replay / evidence machinery.

A *case* is a JSON-able dict {"machine", "cfg", "ops"}; executing it is a pure
function of the case and the code under test (no PRNG is consulted at
execution time except generators seeded from cfg["order_seed"]).  A *batch* is
N cases generated from run seeds mix(VERIF_SEED, property, index) and executed
across worker processes.
"""
import json
import os
import random
import subprocess
import sys
import time
import traceback
from concurrent.futures import ProcessPoolExecutor
from concurrent.futures.process import BrokenProcessPool
import multiprocessing

from . import seams
from .seams import CTX, HarnessError
from .util import mix, cjson, digest, h64

VERIF = os.path.dirname(os.path.dirname(os.path.abspath(__file__)))


class Violation(BaseException):
    def __init__(self, prop, invariant, cause_key, detail=None):
        BaseException.__init__(self, "%s %s %s" % (prop, invariant, cause_key))
        self.prop = prop
        self.invariant = invariant
        self.cause_key = cause_key
        self.detail = detail or {}

    def record(self, step=None):
        return {"property": self.prop, "invariant": self.invariant, "cause_key": self.cause_key,
                "detail": json.loads(cjson(self.detail)), "step": step}


# ---------------------------------------------------------------------------
# machine registry
# ---------------------------------------------------------------------------
_MACHINES = {}


def register_machine(name):
    def deco(cls):
        _MACHINES[name] = cls
        cls.name = name
        return cls
    return deco


def machine_class(name):
    if not _MACHINES:
        from . import machines  # noqa: F401  (imports register)
    return _MACHINES[name]


class MachineBase(object):
    """Common skeleton: step dispatch, eval/distinct accounting."""

    def __init__(self, ctx, cfg):
        self.ctx = ctx
        self.cfg = cfg
        self.fs = ctx.fs
        self.evals = {}
        self.distinct = {}

    def step(self, op):
        fn = getattr(self, "op_" + op["op"], None)
        if fn is None:
            raise HarnessError("unknown op %r for %s" % (op.get("op"), self.name))
        return fn(op)

    def count(self, prop, key=None):
        """Record that an invariant of `prop` was evaluated on a non-trivial
        state; `key` (JSON-able) identifies the abstract case."""
        self.evals[prop] = self.evals.get(prop, 0) + 1
        if key is not None:
            self.distinct.setdefault(prop, set()).add(h64(key))

    def op_ambient(self, op):
        """A call of one of the library's pure helper functions somewhere else in the process (another tool, another
        thread of the same program...).  Whatever it returns or raises, it must not change how metadata objects behave."""
        import productmd.common as c
        import productmd.composeinfo as ci
        import productmd.images as im
        fns = {"create_release_id": c.create_release_id, "parse_release_id": c.parse_release_id, "parse_nvra": c.parse_nvra,
               "is_valid_release_type": c.is_valid_release_type, "is_valid_release_short": c.is_valid_release_short,
               "is_valid_release_version": c.is_valid_release_version, "split_version": c.split_version,
               "get_date_type_respin": ci.get_date_type_respin, "verify_label": ci.verify_label, "identify_image": im.identify_image}
        fn = fns.get(op["fn"])
        if fn is None:
            return "noop"
        try:
            fn(*op.get("args", []))
            return "ok"
        except Exception as e:
            return "raised:" + type(e).__name__

    def watching(self, prop):
        """Pure-observer invariants of other properties are not evaluated in a run that focuses on one property
        (so that they cannot cut the run before the focus property's own invariants are reached)."""
        f = self.cfg.get("focus")
        return f is None or f == prop

    def soft(self, v):
        """Raise `v` unless it is a listed known finding, in which case it is recorded and the run goes on
        (only used where continuing is safe: the model is still in step with the object)."""
        key = "%s:%s" % (v.prop, v.cause_key)
        if key in CTX.known_keys:
            CTX.known_hits[v.cause_key] = CTX.known_hits.get(v.cause_key, 0) + 1
            return
        raise v

    def state_hash(self):
        return 0

    def finish(self):
        """End-of-run checks; may raise Violation."""
        return None


import re as _re
_TMPNAME = _re.compile(r"(^|/)\.?tmp[-_.]?[A-Za-z0-9_]{6,12}(?=$|/|\.)")


def _norm_trace(t):
    """temporary-file names chosen by the code under test (tempfile) are random: they are not part of the event log"""
    return [_TMPNAME.sub(r"\1<tmp>", x) if isinstance(x, str) else x for x in t]


def _where(e):
    tb = e.__traceback__
    last = None
    while tb is not None:
        last = tb
        tb = tb.tb_next
    if last is None:
        return "?"
    return "%s:%d" % (os.path.basename(last.tb_frame.f_code.co_filename), last.tb_lineno)


class RunTimeout(BaseException):
    """raised by the per-run watchdog (SIGALRM): a BaseException so that no `except Exception` in the code under test
    swallows it"""


RUN_TIMEOUT_S = [int(os.environ.get("VERIF_RUN_TIMEOUT_S", "60"))]
_TIMEOUTS_SEEN = [None]      # shared counter (multiprocessing.Value) of runs that hit the watchdog in this batch


def _on_alarm(signum, frame):
    raise RunTimeout()


def run_case(case, want_log=False):
    """One run = a pure function of the case.  A per-run wall-clock watchdog (two orders of magnitude above what the
    slowest run takes) turns a call that never returns - an endless loop introduced into the code under test - into a
    violation of the run's property instead of a hung check."""
    import signal
    import threading
    use_alarm = hasattr(signal, "SIGALRM") and threading.current_thread() is threading.main_thread() and RUN_TIMEOUT_S[0] > 0
    if use_alarm:
        old_handler = signal.signal(signal.SIGALRM, _on_alarm)
        signal.alarm(RUN_TIMEOUT_S[0])
    try:
        return _run_case(case, want_log)
    finally:
        if use_alarm:
            signal.alarm(0)
            signal.signal(signal.SIGALRM, old_handler)


def _run_case(case, want_log=False):
    seams.install()
    cfg = case.get("cfg", {})
    CTX.reset(cfg)
    if CTX.known_keys is None:
        CTX.known_keys = set("%s:%s" % (k["property"], k["cause_key"]) for k in load_known() if k.get("status") == "known")
    m = machine_class(case["machine"])(CTX, cfg)
    log = []
    vrec = None
    nexec = 0
    try:
        for i, op in enumerate(case["ops"]):
            nexec = i + 1
            try:
                out = m.step(op)
            except Violation as v:
                vrec = v.record(i)
                log.append([i, op["op"], "VIOLATION", v.invariant, v.cause_key])
                break
            except HarnessError:
                raise
            except MemoryError:
                raise
            except RunTimeout:
                focus = cfg.get("focus") or getattr(m, "ROUNDTRIP_PROP", "C00")
                v = Violation(focus, "%s.public_api_call_completes" % focus, "run-did-not-finish/%s/%s" % (case["machine"], op["op"]),
                              {"limit_s": RUN_TIMEOUT_S[0]})
                vrec = v.record(i)
                log.append([i, op["op"], "VIOLATION", v.invariant, v.cause_key])
                break
            except Exception as e:
                # A productmd call that the harness makes unconditionally (assigning a public attribute,
                # constructing an object, reading a public mapping) blew up.  On the unchanged tree this never
                # happens; on a changed tree it means the public surface the property speaks about is broken.
                focus = cfg.get("focus") or getattr(m, "ROUNDTRIP_PROP", "C00")
                v = Violation(focus, "%s.public_api_call_completes" % focus,
                              "unexpected-exception/%s/%s/%s" % (case["machine"], op["op"], type(e).__name__),
                              {"error": type(e).__name__, "msg": str(e)[:200], "where": _where(e)})
                vrec = v.record(i)
                log.append([i, op["op"], "VIOLATION", v.invariant, v.cause_key])
                break
            log.append([i, op["op"], out, m.state_hash()])
        else:
            try:
                m.finish()
            except Violation as v:
                vrec = v.record(len(case["ops"]))
                log.append([len(case["ops"]), "finish", "VIOLATION", v.invariant, v.cause_key])
    except HarnessError:
        raise
    trace_digest = digest([_norm_trace(t) for t in CTX.fs.trace] + [list(t) for t in CTX.net.trace])
    res = {
        "violation": vrec,
        "digest": digest([log, trace_digest]),
        "nops": nexec,
        "faults": dict(CTX.faults),
        "probes": dict(CTX.probes),
        "known_hits": dict(CTX.known_hits),
        "dump_hashes": list(CTX.dump_hashes),
        "evals": dict(m.evals),
        "distinct": dict((k, sorted(v)) for k, v in m.distinct.items()),
    }
    if want_log:
        res["log"] = log
        res["trace"] = [list(t) for t in CTX.fs.trace]
    return res


# ---------------------------------------------------------------------------
# known findings
# ---------------------------------------------------------------------------
def load_known():
    path = os.path.join(VERIF, "known_findings.json")
    if not os.path.exists(path) or os.environ.get("VERIF_NO_KNOWN"):
        return []           # VERIF_NO_KNOWN=1: report known findings as violations too (used to replay them)
    with open(path) as f:
        return json.load(f).get("findings", [])


def known_match(vrec, known):
    for k in known:
        if k.get("status") == "known" and k["property"] == vrec["property"] and k["cause_key"] == vrec["cause_key"]:
            return k
    return None


# ---------------------------------------------------------------------------
# batch execution
# ---------------------------------------------------------------------------
def _prop_module(prop):
    import importlib
    return importlib.import_module("simfw.props." + prop.lower())


def case_for(prop, tier, seed, idx):
    pm = _prop_module(prop)
    rs = mix(seed, prop, idx)
    rng = random.Random(rs)
    case = pm.generate(rng, tier, idx)
    case.setdefault("cfg", {})
    # every restart may be preceded by a public peek at the fresh object and / or by a load the object refuses first
    for o in case["ops"]:
        if o.get("op") == "restart" and "pre" not in o:
            r = rng.random()
            if r < 0.12:
                o["pre"] = ["peek"]
            elif r < 0.24:
                o["pre"] = [rng.choice(["garbage", "empty", "wrong-type"])]
            elif r < 0.28:
                o["pre"] = ["peek", rng.choice(["garbage", "wrong-type"])]
    if case["machine"] == "M-DI":
        for o in case["ops"]:
            if o.get("op") == "restart" and "pre" not in o and rng.random() < 0.3:
                o["pre"] = ["used-other-disc"]
    if case["machine"] in ("M-CI", "M-IM", "M-RP", "M-MO", "M-XF"):
        # one restart in ten goes through a document the caller parsed itself (deserialize(), twice from one mapping)
        for o in case["ops"]:
            if o.get("op") == "restart" and o.get("via") in ("loads", "handle") and "pre" not in o and rng.random() < 0.2:
                o["via"] = "parsed"
    if case["machine"] != "M-CD" and "cwd" not in case["cfg"] and rng.random() < 0.1:
        # the tool runs INSIDE the directory that holds the metadata: every file there is addressed by a relative path
        case["cfg"]["cwd"] = "/sim/d"
        case["cfg"]["rel_form"] = rng.choice(["bare", "bare", "dot"])
    if case["machine"] in ("M-CI", "M-IM", "M-RP", "M-MO", "M-XF") and rng.random() < 0.15:
        # the stored document was re-saved by another tool before one of the restarts: other key order, same content
        idxs = [i for i, o in enumerate(case["ops"]) if o.get("op") == "restart"]
        if idxs:
            i = rng.choice(idxs)
            o = case["ops"][i]
            ro = {"op": "fs_reorder_json", "path": o.get("path"), "seed": rng.randrange(1 << 30), "how": rng.choice(["shuffle", "shuffle", "reverse"])}
            if "slot" in o:
                ro["slot"] = o["slot"]
            case["ops"].insert(i, ro)
    if rng.random() < 0.15 and case["ops"]:
        amb = [{"op": "ambient", "fn": "create_release_id", "args": ["f", "22", rng.choice(["bogus", "security-respin", "beta", "ga", "updates"])]},
               {"op": "ambient", "fn": "create_release_id", "args": ["rhel", "7.0", "ga", "f", "22", rng.choice(["bogus", "lts"])]},
               {"op": "ambient", "fn": "parse_release_id", "args": [rng.choice(["f-22-bogus", "rhel-7.0-updates-testing", "x-1"])]},
               {"op": "ambient", "fn": "is_valid_release_type", "args": [rng.choice(["bogus", "GA", "x-y"])]},
               {"op": "ambient", "fn": "parse_nvra", "args": [rng.choice(["bash-0:4.3-1.fc20.x86_64.rpm", "junk", "a-1-2.src"])]},
               {"op": "ambient", "fn": "get_date_type_respin", "args": [rng.choice(["F-22-20150522.n.3", "nothing", "F-22-20150522.zz.1"])]},
               {"op": "ambient", "fn": "verify_label", "args": [rng.choice(["RC-1.0", "GA", None])]},
               {"op": "ambient", "fn": "identify_image", "args": [{"type": "dvd", "arch": "x86_64"}]}]
        for _ in range(rng.randint(1, 3)):
            case["ops"].insert(rng.randint(1, len(case["ops"])), rng.choice(amb))
    case["cfg"].setdefault("order_seed", rs & 0xFFFFFFFF)
    case["cfg"].setdefault("focus", prop)
    return json.loads(cjson(case))      # force JSON-ability (and a private copy)


def _worker(args):
    prop, tier, seed, indices, deadline = args
    import faulthandler
    faulthandler.dump_traceback_later(7000, exit=True)
    try:
        seams.install()
        known = load_known()
        agg = {"runs": 0, "ops": 0, "faults": {}, "probes": {}, "evals": 0, "distinct": set(),
               "violations": [], "known": {}, "foreign": {}, "hist": {}, "samples": [], "skipped": 0,
               "digests": [], "viol_keys": {}, "more_violations": 0}
        for idx in indices:
            if deadline and time.monotonic() > deadline:
                agg["skipped"] += 1
                continue
            if _TIMEOUTS_SEEN[0] is not None and _TIMEOUTS_SEEN[0].value >= 3:
                # the code under test hangs: three runs of this batch already ran into the watchdog - that is a verdict,
                # the rest of the batch would only burn a timeout per run
                agg["skipped"] += 1
                continue
            case = case_for(prop, tier, seed, idx)
            res = run_case(case)
            if res["violation"] is not None and res["violation"]["cause_key"].startswith("run-did-not-finish") and _TIMEOUTS_SEEN[0] is not None:
                with _TIMEOUTS_SEEN[0].get_lock():
                    _TIMEOUTS_SEEN[0].value += 1
            agg["runs"] += 1
            agg["ops"] += res["nops"]
            for k, v in res["faults"].items():
                agg["faults"][k] = agg["faults"].get(k, 0) + v
            for k, v in res["probes"].items():
                agg["probes"][k] = agg["probes"].get(k, 0) + v
            for k, v in res["known_hits"].items():
                agg["known"][k] = agg["known"].get(k, 0) + 1
            agg["evals"] += res["evals"].get(prop, 0)
            agg["distinct"].update(res["distinct"].get(prop, ()))
            b = min(len(case["ops"]) // 4 * 4, 96)
            agg["hist"][b] = agg["hist"].get(b, 0) + 1
            if len(agg["digests"]) < 4:
                agg["digests"].append((idx, res["digest"]))
            v = res["violation"]
            if v is not None:
                if v["property"] != prop:
                    key = "%s:%s" % (v["property"], v["cause_key"])
                    agg["foreign"][key] = agg["foreign"].get(key, 0) + 1
                else:
                    k = known_match(v, known)
                    if k is not None:
                        agg["known"][k["cause_key"]] = agg["known"].get(k["cause_key"], 0) + 1
                    else:
                        ck = v["cause_key"]
                        agg["viol_keys"][ck] = agg["viol_keys"].get(ck, 0) + 1
                        if agg["viol_keys"][ck] <= 1 and len(agg["violations"]) < 10:
                            agg["violations"].append({"idx": idx, "case": case, "violation": v,
                                                      "chunk_prefix": list(indices[:list(indices).index(idx) + 1])})
                        else:
                            agg["more_violations"] = agg.get("more_violations", 0) + 1
            elif len(agg["samples"]) < 1 and res["evals"].get(prop, 0) > 0:
                agg["samples"].append({"run_index": idx, "case": case})
        agg["distinct"] = sorted(agg["distinct"])
        return agg
    except Exception:
        return {"harness_error": traceback.format_exc()}
    finally:
        faulthandler.cancel_dump_traceback_later()
        from . import simfs as _simfs
        _simfs.cleanup()


def _chunk_child(task, conn):
    try:
        conn.send(_worker(task))
    finally:
        conn.close()
        from . import simfs as _simfs
        _simfs.cleanup()
    os._exit(0)


def _run_chunks(tasks, workers):
    """At most `workers` forked processes, one per chunk, each sending its result over a pipe.  A process that dies
    without a result (the interpreter crashed: stack overflow, abort, kill) closes the pipe; that is seen at once and
    reported for the chunk - nothing ever waits on a dead worker."""
    import multiprocessing.connection as mpc
    ctx = multiprocessing.get_context("fork")
    _TIMEOUTS_SEEN[0] = ctx.Value("i", 0)
    pending = list(enumerate(tasks))
    running = {}
    results = [None] * len(tasks)
    try:
        while pending or running:
            while pending and len(running) < workers:
                i, t = pending.pop(0)
                r, w = ctx.Pipe(duplex=False)
                p = ctx.Process(target=_chunk_child, args=(t, w))
                p.start()
                w.close()
                running[i] = (p, r)
            ready = mpc.wait([c for _, c in running.values()], timeout=5.0)
            for i, (p, c) in list(running.items()):
                if c in ready:
                    try:
                        results[i] = c.recv()
                    except (EOFError, OSError):
                        p.join(10)
                        results[i] = {"died": p.exitcode, "task": tasks[i]}
                    c.close()
                    p.join(30)
                    del running[i]
    except BaseException:
        for p, c in running.values():
            try:
                p.terminate()
            except Exception:
                pass
        raise
    return results


def _died_result(r):
    """a chunk whose process died: reported as a violation of the run's property (the public API did not return), with
    the whole chunk as sequence replay"""
    prop, tier, seed, indices, deadline = r["task"]
    v = {"property": prop, "invariant": "%s.public_api_call_completes" % prop, "cause_key": "interpreter-died/exit%s" % r["died"],
         "detail": {"exitcode": r["died"], "chunk": list(indices)[:5] + ["..."]}, "step": 0}
    idx = list(indices)[-1]
    return {"runs": 0, "ops": 0, "faults": {}, "probes": {}, "evals": 0, "distinct": set(), "known": {}, "foreign": {}, "hist": {},
            "samples": [], "skipped": len(indices), "digests": [], "viol_keys": {v["cause_key"]: 1}, "more_violations": 0,
            "violations": [{"idx": idx, "case": case_for(prop, tier, seed, idx), "violation": v, "chunk_prefix": list(indices), "died": True}]}


def run_batch(prop, tier, seed, nruns, workers=None, budget_s=None, log=print):
    workers = workers or min(16, os.cpu_count() or 1)
    nchunks = max(workers * 6, 1)
    indices = list(range(nruns))
    chunks = [indices[i::nchunks] for i in range(nchunks)]
    chunks = [c for c in chunks if c]
    deadline = time.monotonic() + budget_s if budget_s else None
    tasks = [(prop, tier, seed, c, deadline) for c in chunks]
    total = {"runs": 0, "ops": 0, "faults": {}, "probes": {}, "evals": 0, "distinct": set(),
             "violations": [], "known": {}, "foreign": {}, "hist": {}, "samples": [], "skipped": 0,
             "more_violations": 0, "digests": [], "viol_keys": {}}
    if workers == 1:
        results = [_worker(t) for t in tasks]
    else:
        # one freshly forked process per chunk (maxtasksperchild=1): the process state a run sees is exactly the history
        # of its own chunk - never that of another chunk - so a sequence replay can re-create it
        results = _run_chunks(tasks, workers)
    results = [_died_result(r) if "died" in r else r for r in results]
    for r in results:
        if "harness_error" in r:
            raise HarnessError("worker raised:\n" + r["harness_error"])
        for k in ("runs", "ops", "evals", "skipped"):
            total[k] += r[k]
        total["more_violations"] += r.get("more_violations", 0)
        for k in ("faults", "probes", "known", "foreign", "hist", "viol_keys"):
            for kk, vv in r[k].items():
                total[k][kk] = total[k].get(kk, 0) + vv
        total["distinct"].update(r["distinct"])
        total["violations"].extend(r["violations"])
        total["samples"].extend(r["samples"])
        total["digests"].extend(r["digests"])
    total["violations"].sort(key=lambda v: v["idx"])
    total["samples"].sort(key=lambda s: s["run_index"])
    total["digests"].sort()
    return total


# ---------------------------------------------------------------------------
# shrinking (delta debugging over the op list, then argument simplification)
# ---------------------------------------------------------------------------
def same_violation(a, b):
    return (a is not None and b is not None and a["property"] == b["property"]
            and a["invariant"] == b["invariant"] and a["cause_key"] == b["cause_key"])


def shrink(case, vrec, max_execs=600):
    execs = [0]

    def fails(ops, cfg=None):
        if execs[0] >= max_execs:
            return False
        execs[0] += 1
        c = {"machine": case["machine"], "cfg": cfg if cfg is not None else case["cfg"], "ops": ops}
        try:
            r = run_case(c)
        except HarnessError:
            return False
        except Exception:
            return False
        return same_violation(r["violation"], vrec)

    ops = list(case["ops"])
    # cut everything after the violating step
    if vrec.get("step") is not None and vrec["step"] + 1 < len(ops):
        cand = ops[:vrec["step"] + 1]
        if fails(cand):
            ops = cand
    n = 2
    while len(ops) >= 2:
        chunk = max(1, len(ops) // n)
        reduced = False
        i = 0
        while i < len(ops):
            cand = ops[:i] + ops[i + chunk:]
            if cand and fails(cand):
                ops = cand
                reduced = True
            else:
                i += chunk
        if reduced:
            n = max(n - 1, 2)
        else:
            if chunk == 1:
                break
            n = min(n * 2, len(ops))
        if execs[0] >= max_execs:
            break
    # argument simplification: an enumerating op is narrowed to the one fault point / corruption that failed
    last = run_case({"machine": case["machine"], "cfg": case["cfg"], "ops": ops})["violation"]
    if last is not None and last.get("step") is not None and last["step"] < len(ops):
        det = last.get("detail") or {}
        for key in ("ks", "only"):
            if key in det and isinstance(det[key], list):
                cand = [dict(o) for o in ops]
                cand[last["step"]][key] = det[key]
                if fails(cand):
                    ops = cand
    cfg = dict(case["cfg"])
    # simplify configuration: identity set order, sorted listdir
    for key, simple in (("simset", "insertion"), ("listdir", "sorted")):
        if cfg.get(key) not in (None, simple):
            c2 = dict(cfg)
            c2[key] = simple
            if fails(ops, c2):
                cfg = c2
    return {"machine": case["machine"], "cfg": cfg, "ops": ops}, execs[0]


# ---------------------------------------------------------------------------
# replay files
# ---------------------------------------------------------------------------
def write_replay(prop, seed, idx, case, vrec, original_len, tier, run_timeout_s=None):
    d = os.environ.get("VERIF_REPLAY_DIR") or os.path.join(VERIF, "replays")
    os.makedirs(d, exist_ok=True)
    path = os.path.join(d, "%s-%d-%d.json" % (prop, seed, idx))
    doc = {"property": prop, "machine": case["machine"], "cfg": case["cfg"], "ops": case["ops"],
           "violation": vrec, "original_seed": seed, "run_index": idx, "original_len": original_len,
           "tier": tier, "pythonhashseed": os.environ.get("PYTHONHASHSEED", "random")}
    if run_timeout_s:
        doc["run_timeout_s"] = run_timeout_s
    with open(path, "w") as f:
        json.dump(doc, f, indent=1, sort_keys=True)
    return path


def write_sequence_replay(prop, seed, tier, vinfo):
    """The violation did not reproduce from its own case in a fresh interpreter: it depends on state the code under
    test keeps across runs inside one process (a module-level cache, say).  The replay is then the SEQUENCE of cases
    the worker executed from its start up to the failing one."""
    d = os.environ.get("VERIF_REPLAY_DIR") or os.path.join(VERIF, "replays")
    os.makedirs(d, exist_ok=True)
    path = os.path.join(d, "%s-%d-%d-seq.json" % (prop, seed, vinfo["idx"]))
    cases = [case_for(prop, tier, seed, i) for i in vinfo["chunk_prefix"]]
    with open(path, "w") as f:
        json.dump({"mode": "sequence", "property": prop, "cases": cases, "violation": vinfo["violation"], "original_seed": seed,
                   "run_index": vinfo["idx"], "tier": tier, "pythonhashseed": os.environ.get("PYTHONHASHSEED", "random"),
                   "note": "violation depends on process-global state carried over from earlier runs; replay executes all cases in order"}, f)
    return path


def replay_sequence(doc):
    last = None
    for case in doc["cases"]:
        last = run_case(case, want_log=True)
        if last["violation"] is not None and same_violation(last["violation"], doc["violation"]):
            return last
    return last


def _precheck_child(args):
    prop, tier, seed, n = args
    seams.install()
    out = []
    try:
        for idx in range(n):
            a = run_case(case_for(prop, tier, seed, idx))["digest"]
            b = run_case(case_for(prop, tier, seed, idx))["digest"]
            out.append((a, b))
    finally:
        from . import simfs as _simfs
        _simfs.cleanup()
    return out


def replay_file(path):
    with open(path) as f:
        doc = json.load(f)
    case = {"machine": doc["machine"], "cfg": doc["cfg"], "ops": doc["ops"]}
    res = run_case(case, want_log=True)
    return doc, res


def verify_replay_fresh(prop, path):
    """Re-execute the replay file in a fresh interpreter under a different
    PYTHONHASHSEED; it must reproduce (exit 1)."""
    env = dict(os.environ)      # same PYTHONHASHSEED as this run (bin/check pins it to 0): a fresh interpreter, not a fresh hash seed
    p = subprocess.run([sys.executable, os.path.join(VERIF, "simfw", "main.py"), prop, "--replay", path, "--no-evidence"],
                       env=env, stdout=subprocess.PIPE, stderr=subprocess.STDOUT, timeout=600)
    return p.returncode == 1, p.stdout.decode("utf-8", "replace")


# ---------------------------------------------------------------------------
# determinism pre-check
# ---------------------------------------------------------------------------
def determinism_precheck(prop, tier, seed, n=3):
    """n run seeds executed twice in-process and once more in a fresh
    interpreter under another PYTHONHASHSEED; digests must match."""
    # executed in a forked child so that the main process (which later forks the workers) never runs a case itself:
    # a worker's process state is then exactly the history of its own chunk, which is what a sequence replay re-creates
    ctx = multiprocessing.get_context("fork")
    try:
        with ProcessPoolExecutor(max_workers=1, mp_context=ctx) as ex:
            pairs = ex.submit(_precheck_child, (prop, tier, seed, n)).result(timeout=900)
    except HarnessError:
        raise
    except Exception as e:
        # the child died or could not finish (the code under test crashed / hung the interpreter): the batch itself will
        # report that as a violation with a replay; the precheck just says it could not be done
        print("NOTE: determinism precheck could not be completed (%s)" % type(e).__name__)
        return {"seeds_checked": 0, "aborted": type(e).__name__}
    first = []
    carried = False
    for idx, (a, b) in enumerate(pairs):
        if a != b:
            carried = True
        first.append(a)
    env = dict(os.environ)
    env["PYTHONHASHSEED"] = str(1 + (seed % 1000))
    p = subprocess.run([sys.executable, os.path.join(VERIF, "simfw", "main.py"), prop, "--digests", str(n),
                        "--tier", tier, "--seed", str(seed)],
                       env=env, stdout=subprocess.PIPE, stderr=subprocess.PIPE, timeout=600)
    if p.returncode != 0:
        print("NOTE: determinism sub-run under another hash seed failed (exit %d)" % p.returncode)
        return {"seeds_checked": n, "in_process_twice": not carried, "fresh_interpreter_other_hashseed": None, "aborted": "sub-run exit %d" % p.returncode}
    other = p.stdout.decode().split()
    res = {"seeds_checked": n, "in_process_twice": not carried, "fresh_interpreter_other_hashseed": other == first}
    if carried:
        # the same case gives another event log the second time in one process: the tree under test carries state from
        # run to run (the harness resets everything it owns per run).  Violations that depend on it get a sequence replay.
        res["note_state"] = "event log of a case changes when it is executed a second time in the same process"
        print("NOTE: %s" % res["note_state"])
    if other != first:
        # Same process + same hash seed is exactly repeatable (checked above), and bin/check pins PYTHONHASHSEED,
        # so replays stay exact.  A difference across hash seeds means the CODE UNDER TEST behaves differently under
        # another hash seed (the harness itself is hash-seed independent on the unchanged tree: selftest/determinism.py)
        # - that is C08's business (its real-hash-seed sweep reports it); other checks note it and go on.
        res["note"] = "event logs differ under another PYTHONHASHSEED: behaviour of the tree under test depends on the hash seed"
        print("NOTE: %s" % res["note"])
    return res
