"""Seams: everything productmd resolves that the simulator owns.

No source hook in /repo is needed.

  disk   -> builtins.open / io.open and the os.* functions that take a path are interposed process-wide: paths under
            the virtual root "/sim" are translated to a private tmpfs directory, traced, and subject to the armed
            read-side faults (see simfs.py); every other path passes through untouched
  set    -> SimSet planted as the module global `set` in composeinfo, images, treeinfo (Python resolves module globals
            before builtins); with the name removed productmd behaves as shipped
  _validate*  -> counting / fault-injecting wrappers around the REAL validators
  network     -> urllib.request.OpenerDirector.open is interposed (simnet.py): URLs on the simulated host are served from
                 the run's disk by an in-process peer with injectable faults; any other URL fails the run (the real
                 network must never be reached).  productmd.common._urlopen itself runs unmodified.

One global CTX holds the state of the current run (reset per run).
"""
import os as _real_os
import random
import sys

from . import simfs
from . import simnet
from .util import mix

PRODUCTMD_MODULES = ["common", "composeinfo", "images", "rpms", "modules", "extra_files",
                     "treeinfo", "discinfo", "compose"]
SET_MODULES = ["composeinfo", "images", "treeinfo"]


try:
    _START_CWD = _real_os.getcwd()
except OSError:
    _START_CWD = "/"


class HarnessError(Exception):
    pass


_installed = {}


class InjectedValidatorFault(ValueError):
    """The error an armed validator raises.  Subclass of ValueError so that the
    library treats it exactly like a real validation failure."""


class Ctx(object):
    known_keys = None

    def __init__(self):
        self.reset({})

    def reset(self, cfg):
        self.cfg = cfg
        if simfs.VCWD[0] is not None:
            # (before the disk is wiped: nothing of the previous run's directory applies any more)
            simfs.VCWD[0] = None
            simfs._o_chdir(_START_CWD)
        self.fs = simfs.SimFS(self)
        self.order_seed = int(cfg.get("order_seed", 0))
        self.simset_mode = cfg.get("simset", "insertion")
        self.fs.listdir_mode = cfg.get("listdir", "sorted")
        self.fs.listdir_rng = random.Random(mix(self.order_seed, "listdir"))
        self.simset_serial = 0
        self.vcalls = 0            # validator invocations since last arm/reset
        self.vlog = None           # optional list of validator names (counting pass)
        self.armed_k = None
        self.armed_fired = False
        self.faults = {}
        self.probes = {}
        self.urlopen_calls = 0
        # the simulated wall clock (time.time is interposed): it starts at a date drawn from the run's seed and moves on by a
        # second and a bit on EVERY reading, so two readings never agree - a writer whose bytes depend on the clock shows
        self.clock_base = 1.4e9 + (mix(int(cfg.get("order_seed", 0)), "clock") % 300000000)
        self.clock_reads = 0
        self.net = simnet.Peer(self)
        self.known_hits = {}
        self.dump_hashes = []
        self.real_set = bool(cfg.get("real_set"))
        # current directory of the run: "/" (relative paths are not used) or a directory under the virtual root
        cwd = cfg.get("cwd")
        simfs.VCWD[0] = None
        if cwd and simfs.under_root(cwd):
            self.fs.mkdirs(cwd)
            simfs._o_chdir(simfs.to_real(cwd))
            simfs.VCWD[0] = cwd
        if _installed:
            import builtins
            for name in SET_MODULES:
                _installed["mods"][name].set = builtins.set if self.real_set else SimSet

    def fault(self, kind, n=1):
        self.faults[kind] = self.faults.get(kind, 0) + n

    def probe(self, name, n=1):
        self.probes[name] = self.probes.get(name, 0) + n

    # validator fault plan
    def arm_validator(self, k):
        self.vcalls = 0
        self.armed_k = k
        self.armed_fired = False

    def count_validators(self, log=False):
        self.vcalls = 0
        self.armed_k = None
        self.armed_fired = False
        self.vlog = [] if log else None

    def disarm_validator(self):
        self.armed_k = None
        self.vlog = None


CTX = Ctx()


# --------------------------------------------------------------------------
# SimSet
# --------------------------------------------------------------------------
def _simkey(x):
    if isinstance(x, str):
        return (0, x)
    if isinstance(x, (int, float)):
        return (1, repr(x))
    d = getattr(x, "__dict__", None)
    if d is not None:
        return (2, type(x).__name__, repr(sorted((k, repr(v)) for k, v in d.items()
                                                  if not k.startswith("_") and k != "parent")))
    return (3, repr(x))


class _SimSetMeta(type):
    """the name `set` planted in the productmd modules may also be used there as a TYPE (isinstance(x, set)): every real
    set must pass such a test"""

    def __instancecheck__(cls, inst):
        return isinstance(inst, set)

    def __subclasscheck__(cls, sub):
        return issubclass(sub, set)


class SimSet(set, metaclass=_SimSetMeta):
    """A set whose ITERATION ORDER is chosen by the run's PRNG.

    Membership, union, equality... are the inherited C implementation.  Only
    what a Python-level consumer sees when it iterates is controlled:
    sorted(s), list(s), ",".join(s), for x in s all go through __iter__.
    Base order = insertion order (tracked for add/update/constructor; members
    that arrived through an untracked C-level mutator are appended in a
    canonical key order), then permuted according to CTX.simset_mode:
      insertion | reverse | sorted | shuffle (seeded by order_seed, the set's
      creation serial and its iteration count - so two dumps of one object see
      two different orders, reproducibly).
    """

    def __init__(self, iterable=()):
        set.__init__(self)
        self._order = []
        CTX.simset_serial += 1
        self._serial = CTX.simset_serial
        self._iters = 0
        for x in iterable:
            self.add(x)

    def add(self, x):
        if not set.__contains__(self, x):
            self._order.append(x)
        set.add(self, x)

    def update(self, *others):
        for o in others:
            for x in o:
                self.add(x)

    def __ior__(self, other):
        self.update(other)
        return self

    def _base(self):
        items = [x for x in self._order if set.__contains__(self, x)]
        if len(items) != set.__len__(self):
            seen = set(items) if all(isinstance(i, str) for i in items) else None
            extra = [x for x in set.__iter__(self) if (x not in seen if seen is not None else not any(x is i or x == i for i in items))]
            extra.sort(key=_simkey)
            items.extend(extra)
        self._order = list(items)
        return items

    def __iter__(self):
        items = self._base()
        mode = CTX.simset_mode
        self._iters += 1
        if mode == "reverse":
            items.reverse()
        elif mode == "sorted":
            items.sort(key=_simkey)
        elif mode == "shuffle":
            random.Random(mix(CTX.order_seed, self._serial, self._iters)).shuffle(items)
            if len(items) > 1:
                CTX.fault("F7.simset_permuted_iteration")
        return iter(items)

    def pop(self):
        for x in self:
            set.discard(self, x)
            return x
        raise KeyError("pop from an empty set")

    def copy(self):
        return SimSet(self._base())

    def __reduce__(self):
        return (SimSet, (list(self._base()),))


def make_set(iterable=()):
    """What a caller of productmd would write as set([...]): SimSet, or the real set in real_set runs."""
    if CTX.real_set:
        return set(iterable)
    return SimSet(iterable)


# --------------------------------------------------------------------------
# interposition: builtins.open / io.open and the os.* functions that take a path
# --------------------------------------------------------------------------
def _sim_open(file, mode="r", *a, **kw):
    if not isinstance(file, int) and kw.get("opener") is None:
        try:
            p = _real_os.fspath(file)
        except TypeError:
            p = None
        if isinstance(p, bytes):
            try:
                p = p.decode("utf-8")
            except UnicodeDecodeError:
                p = None
        if isinstance(p, str) and simfs.under_root(p):
            return CTX.fs.open(p, mode, *a, **kw)
    return simfs._o_open(file, mode, *a, **kw)


def _wrap1(name):
    orig = simfs._o[name]

    def w(path, *a, **kw):
        if kw.get("dir_fd") is not None:
            return orig(path, *a, **kw)         # relative to an open directory, not to the current one: the kernel's business
        return orig(simfs.translate(path), *a, **kw)
    w.__name__ = name
    return w


def _wrap2(name):
    orig = simfs._o[name]

    def w(src, dst, *a, **kw):
        if kw.get("dir_fd") is not None or kw.get("src_dir_fd") is not None or kw.get("dst_dir_fd") is not None:
            return orig(src, dst, *a, **kw)
        return orig(simfs.translate(src), simfs.translate(dst), *a, **kw)
    w.__name__ = name
    return w


def _sim_listdir(path="."):
    try:
        p = _real_os.fspath(path) if not isinstance(path, int) else None
    except TypeError:
        p = None
    if isinstance(p, str) and simfs.under_root(p):
        return CTX.fs.listdir(p)
    return simfs._o["listdir"](path)


def _sim_os_open(path, flags, mode=0o777, **kw):
    if kw.get("dir_fd") is not None:
        return simfs._o["open"](path, flags, mode, **kw)
    try:
        p = _real_os.fspath(path)
    except TypeError:
        p = None
    if isinstance(p, str) and simfs.under_root(p):
        sim = simfs.norm(simfs.resolve(p))
        if flags & (_real_os.O_WRONLY | _real_os.O_RDWR):
            CTX.fs.trace.append(("open_w", sim, "os.open"))
        else:
            CTX.fs.trace.append(("open_r", sim, "os.open"))
        return simfs._o["open"](simfs.to_real(p), flags, mode, **kw)
    return simfs._o["open"](path, flags, mode, **kw)


class _SimScandir(object):
    """os.scandir under the virtual root: the real entries in the run's adversarial directory order"""

    def __init__(self, entries):
        self._it = iter(entries)

    def __iter__(self):
        return self

    def __next__(self):
        return next(self._it)

    def close(self):
        self._it = iter(())

    def __enter__(self):
        return self

    def __exit__(self, *a):
        self.close()
        return False


def _sim_scandir(path="."):
    try:
        p = _real_os.fspath(path) if not isinstance(path, int) else None
    except TypeError:
        p = None
    if isinstance(p, str) and simfs.under_root(p):
        with simfs._o["scandir"](simfs.to_real(p)) as it:
            entries = sorted(it, key=lambda e: e.name)
        fs = CTX.fs
        if fs.listdir_mode == "reverse":
            entries.reverse()
        elif fs.listdir_mode == "shuffle" and fs.listdir_rng is not None:
            fs.listdir_rng.shuffle(entries)
            fs.fired("F7.listdir_order")
        fs.trace.append(("scandir", simfs.norm(simfs.resolve(p)), len(entries)))
        return _SimScandir(entries)
    return simfs._o["scandir"](path)


_interposed = []


def interpose():
    if _interposed:
        return
    import builtins
    import io
    builtins.open = _sim_open
    io.open = _sim_open
    _real_os.scandir = _sim_scandir
    for name in ("stat", "lstat", "mkdir", "rmdir", "remove", "unlink", "chmod", "utime", "access", "truncate", "readlink", "makedirs"):
        setattr(_real_os, name, _wrap1(name))
    for name in ("rename", "replace", "link", "symlink"):
        setattr(_real_os, name, _wrap2(name))
    _real_os.listdir = _sim_listdir
    _real_os.open = _sim_os_open
    import atexit
    atexit.register(simfs.cleanup)
    _interposed.append(True)


def _sim_time():
    n = CTX.clock_reads
    CTX.clock_reads = n + 1
    CTX.probe("clock.read_by_code_under_test")
    return CTX.clock_base + 1.37 * n


def interpose_clock():
    import time as _t
    if getattr(_t.time, "_simfw", False):
        return
    _sim_time._simfw = True
    _t.time = _sim_time


def _guard_urlopen(path):
    CTX.urlopen_calls += 1
    raise HarnessError("network seam reached: %r" % (path,))


# --------------------------------------------------------------------------
# validator wrappers
# --------------------------------------------------------------------------
def _wrap_validator(cls, name, orig):
    def wrapper(self, *a, **kw):
        k = CTX.vcalls
        CTX.vcalls = k + 1
        if CTX.vlog is not None:
            CTX.vlog.append("%s.%s" % (type(self).__name__, name))
        if CTX.armed_k is not None and k == CTX.armed_k:
            CTX.armed_fired = True
            CTX.fault("F1.validator_raises")
            raise InjectedValidatorFault("injected validator fault #%d" % k)
        return orig(self, *a, **kw)
    wrapper.__name__ = name
    wrapper.__wrapped__ = orig
    wrapper._simfw_wrapper = True
    return wrapper


def modules():
    import importlib
    return dict((m, importlib.import_module("productmd." + m)) for m in PRODUCTMD_MODULES)


def install(repo=None):
    """Idempotent.  `repo` (default $VERIF_REPO or /repo) is put first on
    sys.path so the working tree under test is what gets imported."""
    if _installed:
        return _installed["mods"]
    repo = repo or _real_os.environ.get("VERIF_REPO", "/repo")
    if repo not in sys.path:
        sys.path.insert(0, repo)
    mods = modules()
    got = _real_os.path.realpath(_real_os.path.dirname(_real_os.path.dirname(mods["common"].__file__)))
    if got != _real_os.path.realpath(repo):
        raise HarnessError("productmd imported from %s, expected %s" % (got, repo))
    interpose()
    for name in SET_MODULES:
        mods[name].set = SimSet
    simnet.interpose()
    interpose_clock()
    # validators: every class defined in a productmd module that derives from MetadataBase
    base = mods["common"].MetadataBase
    nwrapped = 0
    seen = set()
    for mod in mods.values():
        for cname, cls in sorted(vars(mod).items()):
            if not isinstance(cls, type) or not issubclass(cls, base) or cls in seen:
                continue
            seen.add(cls)
            for attr, val in sorted(vars(cls).items()):
                if attr.startswith("_validate") and callable(val) and not getattr(val, "_simfw_wrapper", False):
                    setattr(cls, attr, _wrap_validator(cls, attr, val))
                    nwrapped += 1
    _installed["mods"] = mods
    _installed["nwrapped"] = nwrapped
    _installed["repo"] = repo
    return mods


def installed_info():
    return {"repo": _installed.get("repo"), "validators_wrapped": _installed.get("nwrapped")}
