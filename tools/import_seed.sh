#!/bin/sh
# tools/import_seed.sh Cxx A|B : copy a sub-agent's candidate from /tmp/wt-Cxx/_out into seeded/Cxx-A/ (not yet verified)
P="$1"; V="$2"; SRC="/tmp/wt-$P/_out"; DST="$(dirname "$0")/../seeded/$P-$V"
mkdir -p "$DST"
cp "$SRC/$V.diff" "$DST/patch.diff" && cp "$SRC/demo_$V.py" "$DST/demo.py" && cp "$SRC/notes.md" "$DST/notes.md"
cat > "$DST/meta.json" <<EOM
{"property": "$P", "variant": "$V", "origin": "sub-agent given only the text of $P and a scratch worktree (/tmp/wt-$P), no access to /verif", "needs": "see notes.md", "ran": "selftest/seeded.py --only $P-$V"}
EOM
echo "imported $DST"
