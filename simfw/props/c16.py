"""C16 - recorded checksums are the true digests of the right files.

(a) compute through the disk seam: SimFS files of sizes straddling multiples of the 1 MiB read chunk, every
    algorithm hashlib guarantees, decorated relative paths; SimFS records every read(n) so "the whole file was
    consumed" is observed; (b) read-side faults (EIO/EACCES on open, EIO at an offset inside chunk 0/1/2) must
    never leave a digest of a prefix; (c) dump -> stored [checksums] entries rewritten as bare digests of
    recognised / unrecognised lengths in every position -> restart; (d) Image.add_checksum histories.
"""
import hashlib

from .. import gen_ti, gen_im, pools
from ..pools import pick, subset, hexstr

ID = "C16"
LEVEL = "exploration"
RUNS = {"quick": 3200, "thorough": 40000}
REQUIRED_FAULTS = ["F6.eio_on_open", "F6.eio_at_offset", "F6.eacces_on_open", "F3.bare_legacy_digests", "F5.refused_api_call"]
MACHINES = ["M-TI", "M-IM"]

MiB = 1 << 20
def _offered(name):
    try:
        hashlib.new(name)
        return True
    except (ValueError, TypeError):
        return False


# "all algorithms hashlib offers by name": the guaranteed ones plus other spellings hashlib.new() accepts here (OpenSSL names
# with a dash, upper case)
ALGOS = sorted(a for a in hashlib.algorithms_guaranteed if not a.startswith("shake")) + \
    [a for a in ["md5-sha1", "sha3-256", "SHA256", "sha512-256", "ripemd160", "sm3", "blake2b512", "Sha1"] if _offered(a)]
SIZES_QUICK = [0, 1, 17, 4096, MiB - 1, MiB, MiB + 1]
SIZES_THOROUGH = SIZES_QUICK + [2 * MiB, 2 * MiB + 1, 3 * MiB - 1, 2 * MiB - 1]


def decorate(rng, p):
    return pick(rng, [p, p, "./" + p, p.replace("/", "//", 1), "x/../" + p, "./a/./../" + p,
                      "x/y/../../" + p, "a/b/c/../../../" + p, "x/../y/../" + p, "x//y/.././../" + p, p.replace("/", "/./", 1)])


def gen_ti_case(rng, tier):
    K = gen_ti.gen_content(rng, max_top=2, max_children=1)
    K["checksums"] = {}
    ops = gen_ti.build_ops(K, rng)
    sizes = SIZES_QUICK if tier == "quick" else SIZES_THOROUGH
    files = []
    nfiles = rng.randint(1, 4)
    for i in range(nfiles):
        size = pick(rng, sizes) if rng.random() < 0.8 else rng.randint(0, 3 * MiB if tier != "quick" else MiB + 5000)
        rel = "%s/file%d.img" % (pick(rng, ["images", "LiveOS", "Deep/er/dir"]), i)
        files.append((rel, size))
        if rng.random() < 0.2:
            # the file is kept in a pool directory; the name in the tree is a RELATIVE symbolic link to it
            ops.append({"op": "fs_file", "path": "/sim/tree/pool/file%d.img" % i, "size": size, "seed": rng.randint(0, 10 ** 9)})
            ops.append({"op": "fs_symlink", "path": "/sim/tree/" + rel, "target": "../" * rel.count("/") + "pool/file%d.img" % i})
        else:
            ops.append({"op": "fs_file", "path": "/sim/tree/" + rel, "size": size, "seed": rng.randint(0, 10 ** 9)})
    # a second tree next to the first one holds files of the SAME relative names and sizes with other content (the other
    # architecture of the same release); which file is hashed is decided by the root handed over with each call
    two_roots = rng.random() < 0.3
    if two_roots:
        for rel, size in files:
            ops.append({"op": "fs_file", "path": "/sim/tree2/" + rel, "size": size, "seed": rng.randint(0, 10 ** 9)})
    else:
        ops.append({"op": "fs_mkdir", "path": "/sim/tree2"})
    roots = ["/sim/tree", "/sim/tree/"]
    if rng.random() < 0.3:
        # the root as a caller spells it: not in normal form
        roots = ["/sim/./tree", "/sim//tree/", "/sim/tree/.", "/sim/tree2/../tree", "/sim/tree//"]
    for _ in range(rng.randint(2, 7)):
        rel, size = pick(rng, files)
        r = rng.random()
        o = {"op": "ti_checksum_add", "path": decorate(rng, rel), "ctype": pick(rng, ALGOS), "root_dir": pick(rng, roots)}
        if two_roots and rng.random() < 0.5:
            o["root_dir"] = pick(rng, ["/sim/tree2", "/sim/tree2/"])
        if r < 0.15:
            o["path"] = "/" + rel                       # absolute: refused
            if rng.random() < 0.5:
                o["value"] = hexstr(rng, 32)
        elif r < 0.3:
            o["value"] = hexstr(rng, 64)                # explicit value
            if rng.random() < 0.3:
                o["value"] = o["value"].upper()         # ...in the spelling of the tool that printed it: kept verbatim
            if rng.random() < 0.4:
                o["also_root"] = True                   # ...handed over TOGETHER with the tree root
        elif r < 0.55:
            kind = pick(rng, ["eio_on_open", "eacces_on_open", "eio_at_offset", "eio_at_offset"])
            o["fault"] = {"kind": kind, "offset": pick(rng, [0, 1, MiB - 1, MiB, MiB + 1, 2 * MiB, rng.randint(0, 3 * MiB)])}
        elif r < 0.6:
            o["path"] = "images/missing.img"
        ops.append(o)
        if rng.random() < 0.25:
            # the file is replaced by other content of the SAME size (and, on SimFS, the same mtime) between two computations
            rel2, size2 = pick(rng, files)
            ops.append({"op": "fs_file", "path": "/sim/tree/" + rel2, "size": size2, "seed": rng.randint(0, 10 ** 9)})
            ops.append({"op": "ti_checksum_add", "path": decorate(rng, rel2), "ctype": o["ctype"], "root_dir": "/sim/tree"})
            ops.append({"op": "ti_checksum_add", "path": rel2, "ctype": pick(rng, ALGOS), "root_dir": "/sim/tree"})
    path = "/sim/d/.treeinfo"
    ops.append({"op": "dump", "path": path})
    if rng.random() < 0.12:
        # "absolute paths are refused" also when the entry did not come through Checksums.add: planted in the public table
        # next to relative names of every kind (dot files, names that sort before '/'), the tree must not be written
        for k in range(rng.randint(0, 2)):
            ops.append({"op": "ti_checksum_raw", "path": pick(rng, [".discinfo", ".treeinfo.bak", "-opt/x", "+plus", "!bang", "images/boot.iso", "zz"]),
                        "ctype": "sha256", "value": hexstr(rng, 64)})
        ops.append({"op": "ti_checksum_raw", "path": pick(rng, ["/abs/file", "/", "//server/share", "/images/boot.iso"]), "ctype": "sha256", "value": hexstr(rng, 64)})
        ops.append({"op": "dump", "path": path})
        ops.append({"op": "dumps"})
        return {"machine": "M-TI", "cfg": {"simset": "insertion"}, "ops": ops}
    if rng.random() < 0.15:
        # the node restarts on a pre-productmd copy of the file (compatibility sections only): every checksum path must
        # still carry its own algorithm and value
        ops.append({"op": "ti_checksum_add", "path": pick(rng, ["x86_64/os/images/boot.iso", "tree/os/x", "a/os/b/os/c"]), "ctype": "sha256", "value": hexstr(rng, 64)})
        ops.append({"op": "dump", "path": path})
        ops.append({"op": "ti_downgrade", "path": path, "version": "0.0", "tag": "C16"})
        ops.append({"op": "restart", "path": path, "via": pick(rng, ["path", "handle", "loads"]), "offset": rng.randint(0, 300)})
        return {"machine": "M-TI", "cfg": {"simset": "insertion"}, "ops": ops}
    if rng.random() < 0.25:
        # an absolute KEY planted in the stored file, read by a fresh object and by objects that read other files before
        ops.append({"op": "ti_abs_key_stored", "path": path, "n": rng.randint(0, 11)})
    if rng.random() < 0.6:
        modes = ["keep", "bare", "bare32", "bare40", "bare64", "bare31", "bare33", "bare48", "bare128", "bare0", "bare65"]
        ops.append({"op": "ti_bare_digests", "path": path, "plan": [pick(rng, modes) for _ in range(rng.randint(1, 5))]})
    ops.append({"op": "restart", "path": path, "via": pick(rng, ["path", "handle", "loads"]), "offset": rng.randint(0, 300)})
    return {"machine": "M-TI", "cfg": {"simset": "insertion"}, "ops": ops}


def gen_im_case(rng, tier):
    imgs = [gen_im.gen_image(rng, i) for i in range(rng.randint(1, 3))]
    if len(imgs) > 1 and rng.random() < 0.5:
        # the same payload under two names: different images, equal checksums
        for img in imgs[1:]:
            img["checksums"] = dict(imgs[0]["checksums"])
    spellings = ["md5", "sha1", "sha256", "sha512"]
    if rng.random() < 0.35:
        # the manifest spells algorithm names the way another tool wrote them (SHA256, Md5): a name is a key - the value
        # recorded under it is not replaced through another spelling either
        up = {"md5": "MD5", "sha1": "Sha1", "sha256": "SHA256", "sha512": "SHA512"}
        for img in imgs:
            img["checksums"] = dict((up.get(k, k) if rng.random() < 0.7 else k, v) for k, v in img["checksums"].items())
        spellings = spellings + ["MD5", "SHA256", "Sha1", "SHA512"]
    ops = [{"op": "im_init", "compose": pools.compose(rng), "version": "1.2"}]
    for i, img in enumerate(imgs):
        ops.append({"op": "img_new", "iid": i, "attrs": img})
        ops.append({"op": "img_add", "variant": "Server", "arch": "x86_64", "iid": i})
    vals = ["aa11", "bb22", "", None, "cc33"]
    path = "/sim/d/images.json"
    n = rng.randint(3, 12)
    restart_at = rng.randrange(n) if rng.random() < 0.5 else None
    for k in range(n):
        if k == restart_at:
            # the images the calls go on with were read from the stored manifest
            ops.append({"op": "dump", "path": path})
            ops.append({"op": "restart", "path": path, "via": pick(rng, ["path", "handle", "loads"]), "offset": rng.randint(0, 300)})
        i = rng.randrange(len(imgs))
        t = pick(rng, spellings)
        v = pick(rng, vals + list(imgs[i]["checksums"].values()))
        ops.append({"op": "img_add_checksum", "iid": i, "ctype": t, "value": v})
    ops.append({"op": "dumps"})
    if rng.random() < 0.5:
        ops.append({"op": "dump", "path": path})
        ops.append({"op": "restart", "path": path, "via": "path"})
    return {"machine": "M-IM", "cfg": {}, "ops": ops}


def generate(rng, tier, idx):
    if idx % 4 == 3:
        return gen_im_case(rng, tier)
    return gen_ti_case(rng, tier)
