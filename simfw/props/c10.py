"""C10 - source content is filed under binary architectures.

(i) refusal: add with every architecture class interleaved in histories; (ii) re-filing on restart:
the stored manifest is rewritten as images 1.0/1.1 or rpms 0.3 with source images / source RPMs under a
'src' key (F8) and the node restarts on it; (iii) after every step and on every stored file all
architecture keys are binary.
"""
from .. import gen_im, gen_mf, pools
from ..pools import pick, subset

ID = "C10"
LEVEL = "exploration"
RUNS = {"quick": 4000, "thorough": 200000}
REQUIRED_FAULTS = ["F5.refused_api_call", "F8.older_format_on_disk"]
MACHINES = ["M-IM", "M-RP"]


def bad_arch_image_adds(rng, K, n):
    ops = []
    for _ in range(n):
        if not K["imgs"]:
            break
        ops.append({"op": "img_add", "variant": pick(rng, gen_im.VARIANTS), "arch": pick(rng, pools.ARCHES_BAD + ["noarch", "ia64"]),
                    "iid": rng.randrange(len(K["imgs"]))})
    return ops


def src_lookup(rng, ops):
    """a consumer asks the manifest whether a variant has a source tree of its own (manifest[variant]['src'], KeyError =
    no): asking does not create one"""
    variants = sorted(set(o["variant"] for o in ops if o.get("op") in ("add", "model_add") and isinstance(o.get("variant"), str))) or ["Server"]
    return {"op": "mf_lookup", "variant": pick(rng, variants), "arch": pick(rng, ["src", "src", "nosrc"]), "how": [pick(rng, ["item", "table"])]}


def generate(rng, tier, idx):
    if idx % 2 == 0:
        K = gen_im.gen_c10_content(rng)
        ops = gen_im.build_ops(K, rng)
        if ops[0]["op"] == "im_init" and rng.random() < 0.3:
            # a manifest started under an explicitly older / newer header version: the arch rule does not depend on it
            ops[0]["version"] = pick(rng, ["1.0", "1.0", "1.1", "0.3", "2.0"])
        body = ops[1 + len(K["imgs"]):]
        for o in bad_arch_image_adds(rng, K, rng.randint(1, 4)):
            body.insert(rng.randint(0, len(body)), o)
        ops = ops[:1 + len(K["imgs"])] + body
        path = "/sim/d/images.json"
        ops.append({"op": "dump", "path": path})
        variants = sorted(set(v for v, _, _ in K["cells"]))
        ops.append({"op": "im_downgrade", "path": path, "version": pick(rng, ["1.0", "1.1", "1.0"]),
                    "src_variants": pick(rng, ["all", subset(rng, variants, 0, len(variants))]), "tag": "C10", "drop_empty": rng.random() < 0.4, "empty_src": rng.random() < 0.4})
        ops.append({"op": "restart", "path": path, "via": pick(rng, ["path", "handle", "loads"]), "offset": rng.randint(0, 500)})
        if rng.random() < 0.5:
            # the object that went through the legacy load is then offered images under a source / unknown arch: refused as ever
            for k in range(rng.randint(1, 3)):
                img = gen_im.gen_image(rng, 800 + k, arch="src")
                img["path"] = "post/legacy/src-%d.iso" % k
                ops.append({"op": "img_new", "iid": 8000 + k, "attrs": img})
                ops.append({"op": "img_add", "variant": pick(rng, variants or ["Server"]), "arch": pick(rng, ["src", "src", "nosrc", "x86"]), "iid": 8000 + k})
        ops.append({"op": "dump", "path": path})
        ops.append({"op": "restart", "path": path, "via": "path"})
        if rng.random() < 0.5:
            # the object that just went through a legacy load receives ANOTHER older document (other arches for a variant)
            ops.insert(len(ops) - 2, {"op": "im_legacy_onto", "version": pick(rng, ["1.0", "1.1"]), "variant": pick(rng, variants or ["Server"]),
                                      "arches": subset(rng, ["ppc64le", "s390x", "ia64", "riscv64", "x86_64", "aarch64"], 1, 3), "nsrc": rng.randint(1, 2)})
        return {"machine": "M-IM", "cfg": {"simset": pick(rng, ["insertion", "shuffle", "reverse"])}, "ops": ops}
    ops = gen_mf.rpms_canonical_history(rng)
    arches = sorted(set(o["arch"] for o in ops if o["op"] == "add"))
    if rng.random() < 0.35:
        # the old document is synthesised by the harness from the reference model (independent of Rpms.add)
        for o in ops:
            if o["op"] == "add":
                o["op"] = "model_add"
        path = "/sim/d/rpms.json"
        ops.append({"op": "model_dump", "path": path})
        ops.append({"op": "rp_downgrade", "path": path, "version": pick(rng, ["0.3", "0.3", "1.0", "1.1"]), "tag": "C10",
                    "decorate": pick(rng, [None, None, "rpm", "dir"])})
        ops.append({"op": "restart", "path": path, "via": pick(rng, ["path", "handle", "loads"]), "offset": rng.randint(0, 500)})
        for _ in range(rng.randint(0, 3)):
            ops.append(gen_mf.rpm_add(rng, arches=arches + ["src"], invalid=0.2))
            if rng.random() < 0.5:
                ops.append(src_lookup(rng, ops))
        ops.append({"op": "dump", "path": path})
        ops.append({"op": "restart", "path": path, "via": "path"})
        return {"machine": "M-RP", "cfg": {}, "ops": ops}
    for _ in range(rng.randint(1, 4)):
        bad = gen_mf.rpm_add(rng, arches=arches, invalid=0)
        bad["arch"] = pick(rng, pools.ARCHES_BAD)
        ops.insert(rng.randint(1, len(ops)), bad)
    path = "/sim/d/rpms.json"
    ops.append({"op": "dump", "path": path})
    ops.append({"op": "rp_downgrade", "path": path, "version": pick(rng, ["0.3", "0.3", "0.3", "1.0", "1.1"]), "tag": "C10",
                "decorate": pick(rng, [None, None, "rpm", "dir"])})
    ops.append({"op": "restart", "path": path, "via": pick(rng, ["path", "handle", "loads"]), "offset": rng.randint(0, 500)})
    for _ in range(rng.randint(0, 3)):
        ops.append(gen_mf.rpm_add(rng, arches=arches + ["src"], invalid=0.2))
        if rng.random() < 0.5:
            ops.append(src_lookup(rng, ops))
    ops.append({"op": "dump", "path": path})
    ops.append({"op": "restart", "path": path, "via": "path"})
    return {"machine": "M-RP", "cfg": {}, "ops": ops}
