from . import ci, im, mf  # noqa: F401
