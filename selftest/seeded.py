#!/venv/bin/python
"""Runs the checks against the seeded changes kept under /verif/seeded/<id>/ (patch.diff, demo.py, meta.json).

For every seeded change, in a scratch copy of /repo (mktemp, removed afterwards; /repo itself is never touched):
  1. the patch applies and the repository's own test suite still passes,
  2. the demonstration fails with the patch and passes without it,
  3. the quick check of the property it breaks exits 1 with a VIOLATION line (with --all-checks: every check is
     run and the ones that fire are listed).
Writes selftest/SEEDED.md.   Usage: selftest/seeded.py [--only ID] [--jobs N] [--tier quick] [--all-checks]
Also usable on a candidate that is not kept yet:  selftest/seeded.py --candidate DIR --prop Cxx  (DIR holds patch.diff + demo.py)
"""
import argparse
import json
import os
import shutil
import subprocess
import sys
import tempfile
import time
from concurrent.futures import ThreadPoolExecutor

VERIF = os.path.dirname(os.path.dirname(os.path.abspath(__file__)))
REPO = os.environ.get("VERIF_REPO_BASE", "/repo")
PY = "/venv/bin/python"


def sh(cmd, cwd=None, env=None, timeout=3000):
    p = subprocess.run(cmd, cwd=cwd, env=env, stdout=subprocess.PIPE, stderr=subprocess.STDOUT, timeout=timeout)
    return p.returncode, p.stdout.decode("utf-8", "replace")


def evaluate(sdir, prop, tier, all_checks, claimed):
    name = os.path.basename(sdir.rstrip("/"))
    res = {"id": name, "prop": prop}
    d = tempfile.mkdtemp(prefix="pmd-seed-")
    try:
        clean = os.path.join(d, "clean")
        dst = os.path.join(d, "repo")
        ign = shutil.ignore_patterns(".git", "__pycache__", "*.pyc", "*.egg-info", "_out")
        shutil.copytree(REPO, clean, ignore=ign)
        shutil.copytree(REPO, dst, ignore=ign)
        rc, out = sh(["git", "apply", "--unsafe-paths", "--directory=" + dst, os.path.join(sdir, "patch.diff")], cwd="/")
        if rc != 0:
            rc, out = sh(["patch", "-p1", "-d", dst, "-i", os.path.join(sdir, "patch.diff")])
        if rc != 0:
            res["status"] = "PATCH-FAILED"
            res["detail"] = out[-300:]
            return res
        env = dict(os.environ, PYTHONPATH=dst, PYTHONDONTWRITEBYTECODE="1", PYTHONHASHSEED="0")
        rc, out = sh([PY, "-m", "pytest", "-q", "-p", "no:cacheprovider", "tests"], cwd=dst, env=env)
        res["tests_pass"] = rc == 0
        res["tests_tail"] = out.strip().split("\n")[-1][:120]
        demo = os.path.join(sdir, "demo.py")
        if os.path.exists(demo):
            rc1, o1 = sh([PY, demo], cwd=d, env=dict(os.environ, PYTHONPATH=dst, PYTHONDONTWRITEBYTECODE="1"), timeout=600)
            rc0, o0 = sh([PY, demo], cwd=d, env=dict(os.environ, PYTHONPATH=clean, PYTHONDONTWRITEBYTECODE="1"), timeout=600)
            res["demo_fails_with_patch"] = rc1 != 0
            res["demo_passes_without"] = rc0 == 0
        props = claimed if all_checks else [prop]
        fired = []
        t0 = time.time()
        for p in props:
            env = dict(os.environ, VERIF_REPO=dst, VERIF_REPLAY_DIR=os.path.join(d, "replays"), VERIF_EVIDENCE_DIR=os.path.join(d, "evidence"))
            rc, out = sh([os.path.join(VERIF, "bin", "check"), p, "--tier", tier], cwd=VERIF, env=env)
            if rc == 1 and "VIOLATION property=%s" % p in out:
                keys = [l for l in out.split("\n") if l.startswith("violation cause keys")]
                fired.append((p, keys[0][len("violation cause keys in this batch: "):][:160] if keys else ""))
            elif rc not in (0, 1):
                res.setdefault("harness_errors", []).append((p, out[-400:]))
        res["wall_s"] = round(time.time() - t0, 1)
        res["fired"] = fired
        res["caught"] = any(p == prop for p, _ in fired)
        res["status"] = "CAUGHT" if res["caught"] else ("CAUGHT-BY-OTHER" if fired else "MISSED")
        return res
    finally:
        shutil.rmtree(d, ignore_errors=True)


def main():
    ap = argparse.ArgumentParser()
    ap.add_argument("--only")
    ap.add_argument("--jobs", type=int, default=4)
    ap.add_argument("--tier", default="quick")
    ap.add_argument("--all-checks", action="store_true")
    ap.add_argument("--candidate")
    ap.add_argument("--prop")
    args = ap.parse_args()
    claimed = [c["property_id"] for c in json.load(open(os.path.join(VERIF, "MANIFEST.json")))["checks"]]
    if args.candidate:
        r = evaluate(args.candidate, args.prop, args.tier, args.all_checks, claimed)
        print(json.dumps(r, indent=1))
        return 0 if r.get("caught") else 1
    root = os.path.join(VERIF, "seeded")
    items = []
    for name in sorted(os.listdir(root)):
        sdir = os.path.join(root, name)
        meta = os.path.join(sdir, "meta.json")
        if not os.path.isfile(meta) or (args.only and not any(o in name for o in args.only.split(","))):
            continue
        items.append((sdir, json.load(open(meta))["property"]))
    with ThreadPoolExecutor(max_workers=args.jobs) as ex:
        results = list(ex.map(lambda it: evaluate(it[0], it[1], args.tier, args.all_checks, claimed), items))
    lines = ["# Seeded changes vs. checks (%s tier%s)" % (args.tier, ", all checks run" if args.all_checks else ""), "",
             "| seeded change | property | tests green | demo fails with / passes without | result | fired (cause keys) |", "|---|---|---|---|---|---|"]
    bad = 0
    for r in results:
        fired = "; ".join("%s %s" % f for f in r.get("fired", []))
        print("%-28s %-5s %-16s tests=%s demo=%s/%s %s" % (r["id"], r["prop"], r["status"], r.get("tests_pass"), r.get("demo_fails_with_patch"),
                                                       r.get("demo_passes_without"), fired[:200]))
        if r["status"] != "CAUGHT":
            bad += 1
        lines.append("| %s | %s | %s | %s / %s | %s | %s |" % (r["id"], r["prop"], r.get("tests_pass"), r.get("demo_fails_with_patch"),
                                                             r.get("demo_passes_without"), r["status"], fired.replace("|", "/")[:300]))
    if not args.only:
        with open(os.path.join(VERIF, "selftest", "SEEDED.md"), "w") as f:
            f.write("\n".join(lines) + "\n")
    print("%d seeded changes, %d not caught by their own property's check" % (len(results), bad))
    return 1 if bad else 0


if __name__ == "__main__":
    sys.exit(main())
