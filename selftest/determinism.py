#!/venv/bin/python
"""Determinism self-test.  For every claimed property:
  * the event-log digests of the first N runs are computed in 4 fresh interpreters (PYTHONHASHSEED 0, 0 again, 1, 98765)
    and must be identical line by line (the harness never consults hash(), id(), a clock or the global PRNG);
  * a small batch is executed with 1 worker and with 16 workers; runs / ops / invariant evaluations / distinct keys /
    fault firings must be identical.
Usage: selftest/determinism.py [-n 150] [--props C01,C02]     exit 0 iff everything matches."""
import argparse
import json
import os
import subprocess
import sys
from concurrent.futures import ThreadPoolExecutor

VERIF = os.path.dirname(os.path.dirname(os.path.abspath(__file__)))
sys.path.insert(0, VERIF)
MAIN = os.path.join(VERIF, "simfw", "main.py")


def digests(prop, n, hashseed, seed):
    env = dict(os.environ, PYTHONHASHSEED=str(hashseed))
    p = subprocess.run([sys.executable, MAIN, prop, "--digests", str(n), "--seed", str(seed)], env=env, stdout=subprocess.PIPE, stderr=subprocess.PIPE)
    if p.returncode != 0:
        return ["ERROR " + p.stderr.decode()[-300:]]
    return p.stdout.decode().split()


def batch(prop, workers, seed, runs):
    code = ("import sys, json; sys.path.insert(0, %r); from simfw import core, seams; seams.install(); "
            "t = core.run_batch(%r, 'quick', %d, %d, workers=%d); "
            "print(json.dumps([t['runs'], t['ops'], t['evals'], len(t['distinct']), sorted(t['faults'].items()), sorted(t['probes'].items()), t['digests'][:4]]))"
            % (VERIF, prop, seed, runs, workers))
    p = subprocess.run([sys.executable, "-c", code], env=dict(os.environ, PYTHONHASHSEED="0"), stdout=subprocess.PIPE, stderr=subprocess.PIPE)
    if p.returncode != 0:
        return "ERROR " + p.stderr.decode()[-300:]
    return p.stdout.decode().strip().split("\n")[-1]


def main():
    ap = argparse.ArgumentParser()
    ap.add_argument("-n", type=int, default=150)
    ap.add_argument("--props")
    ap.add_argument("--seed", type=int, default=7)
    args = ap.parse_args()
    props = args.props.split(",") if args.props else [c["property_id"] for c in json.load(open(os.path.join(VERIF, "MANIFEST.json")))["checks"]]
    bad = 0
    report = []
    for prop in props:
        with ThreadPoolExecutor(max_workers=6) as ex:
            fs = [ex.submit(digests, prop, args.n, hs, args.seed) for hs in (0, 0, 1, 98765)]
            fb = [ex.submit(batch, prop, w, args.seed, 320) for w in (1, 16)]
            ds = [f.result() for f in fs]
            bs = [f.result() for f in fb]
        ok_d = all(d == ds[0] for d in ds) and len(ds[0]) == args.n
        ok_b = bs[0] == bs[1] and not bs[0].startswith("ERROR")
        if not (ok_d and ok_b):
            bad += 1
        ndiff = sum(1 for i in range(min(len(d) for d in ds)) if len(set(d[i] for d in ds)) > 1)
        print("%s digests(%d runs x 4 interpreters): %s%s   workers 1 vs 16: %s" % (
            prop, args.n, "identical" if ok_d else "DIFFER", "" if ok_d else " (%d runs differ)" % ndiff, "identical" if ok_b else "DIFFER"))
        if not ok_b:
            print("   ", bs[0][:300], "\n   ", bs[1][:300])
        report.append({"property": prop, "runs": args.n, "digests_identical": ok_d, "workers_1_vs_16_identical": ok_b})
    with open(os.path.join(VERIF, "selftest", "DETERMINISM.json"), "w") as f:
        json.dump({"seed": args.seed, "hashseeds": [0, 0, 1, 98765], "results": report}, f, indent=1)
    print("determinism: %d properties, %d with differences" % (len(props), bad))
    return 1 if bad else 0


if __name__ == "__main__":
    sys.exit(main())
