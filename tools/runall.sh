#!/bin/sh
# run every claimed check once (tier = $1, default quick); prints one line per property
cd "$(dirname "$0")/.."
TIER="${1:-quick}"
rc_all=0
for p in $(jq -r '.checks[].property_id' MANIFEST.json); do
  out=$(bin/check "$p" --tier "$TIER" 2>&1); rc=$?
  echo "$p rc=$rc $(echo "$out" | tail -1 | cut -c1-400)"
  echo "$out" | grep -E "^(VIOLATION|KNOWN-FINDING|HARNESS-ERROR)" | cut -c1-300
  [ $rc -ne 0 ] && rc_all=1
done
exit $rc_all
