"""C09 - image identity is unique within a manifest.

Images come from a small pool (few identity tuples x 2-3 checksum values, each identity attribute
varied individually), added across the same and different cells, under header versions below, at
and above 1.1, interleaved with dump / restart; stored documents get a colliding pair injected.
"""
from .. import gen_im, pools
from ..pools import pick, hexstr

ID = "C09"
LEVEL = "exploration"
RUNS = {"quick": 5000, "thorough": 300000}
REQUIRED_FAULTS = ["F5.refused_api_call", "F9.restart_path", "F3.colliding_pair_injected"]
MACHINES = ["M-IM"]


def legacy_then_add(rng):
    """The node restarts on a pre-1.1 copy of its manifest (subvariant did not exist: every image comes back with '')
    and then keeps adding: the identity rule applies to the upgraded, current-version object."""
    imgs = gen_im.gen_c09_pool(rng, n_ident=rng.randint(2, 5))
    for img in imgs:
        img["subvariant"] = ""
        img["unified"] = False
        img["additional_variants"] = []
    ops = [{"op": "im_init", "compose": pools.compose(rng, {"short": "F", "version": "20"}), "version": "1.2"}]
    for i, img in enumerate(imgs):
        ops.append({"op": "img_new", "iid": i, "attrs": img})
    path = "/sim/d/images.json"
    for _ in range(rng.randint(1, 4)):
        ops.append({"op": "img_add", "variant": pick(rng, ["Server", "Client"]), "arch": pick(rng, pools.ARCHES[:3]), "iid": rng.randrange(len(imgs))})
    ops.append({"op": "dump", "path": path})
    ops.append({"op": "im_downgrade", "path": path, "version": pick(rng, ["1.0", "1.0", "1.1"]), "src_variants": [], "tag": "C09"})
    ops.append({"op": "restart", "path": path, "via": pick(rng, ["path", "handle", "loads"]), "offset": rng.randint(0, 300)})
    for i, img in enumerate(imgs):
        ops.append({"op": "img_new", "iid": 1000 + i, "attrs": dict(img, path=img["path"] + ".g1")})
    for _ in range(rng.randint(2, 8)):
        ops.append({"op": "img_add", "variant": pick(rng, ["Server", "Client"]), "arch": pick(rng, pools.ARCHES[:3]), "iid": 1000 + rng.randrange(len(imgs))})
    ops.append({"op": "dump", "path": path})
    ops.append({"op": "restart", "path": path, "via": "path"})
    return {"machine": "M-IM", "cfg": {"simset": pick(rng, ["insertion", "shuffle"])}, "ops": ops}


def inplace_identity_change(rng):
    """An image already filed gets one more additional variant IN PLACE (no attribute assignment): its identity is now that
    of another pool image, whose add (other checksums) must be refused - and vice versa for an identity that has moved away."""
    base = gen_im.gen_image(rng, 0, arch=pick(rng, pools.ARCHES[:3]), small_identity=True)
    base["unified"] = True
    base["additional_variants"] = [pick(rng, ["Server", "Client"])]
    extra = pick(rng, ["Workstation", "Cloud"])
    longer = dict(base, additional_variants=base["additional_variants"] + [extra], path="p/longer.iso",
                  checksums=dict((k, hexstr(rng, len(v))) for k, v in base["checksums"].items()))
    same = dict(base, additional_variants=list(base["additional_variants"]), path="p/same.iso",
                checksums=dict((k, hexstr(rng, len(v))) for k, v in base["checksums"].items()))
    ops = [{"op": "im_init", "compose": pools.compose(rng, {"short": "F", "version": "20"}), "version": pick(rng, [None, "1.2", "1.1", "2.0"])},
           {"op": "img_new", "iid": 0, "attrs": base}, {"op": "img_new", "iid": 1, "attrs": longer}, {"op": "img_new", "iid": 2, "attrs": same}]
    v, a = pick(rng, ["Server", "Client"]), pick(rng, pools.ARCHES[:3])
    ops.append({"op": "img_add", "variant": v, "arch": a, "iid": 0})
    if rng.random() < 0.5:
        ops.append({"op": "img_add", "variant": pick(rng, ["Server", "Client"]), "arch": a, "iid": 2})     # refused: collides now
    ops.append({"op": "img_inplace", "iid": 0, "how": "additional_variants.append", "value": extra})
    order = [1, 2]
    rng.shuffle(order)
    for i in order:
        ops.append({"op": "img_add", "variant": pick(rng, ["Server", "Client"]), "arch": pick(rng, pools.ARCHES[:3]), "iid": i})
    path = "/sim/d/images.json"
    ops.append({"op": "dump", "path": path})
    ops.append({"op": "restart", "path": path, "via": "path"})
    return {"machine": "M-IM", "cfg": {"simset": pick(rng, ["insertion", "shuffle"])}, "ops": ops}


def generate(rng, tier, idx):
    if idx % 10 == 9:
        return legacy_then_add(rng)
    if idx % 20 == 8:
        return inplace_identity_change(rng)
    imgs = gen_im.gen_c09_pool(rng, n_ident=rng.randint(2, 6))
    rel = {"short": "F", "version": "20"}
    version = pick(rng, [None, None, "1.2", "1.2", "1.1", "1.0", "0.3", "2.0", "1.10", "10.0", "0.11"])
    ops = [{"op": "im_init", "compose": pools.compose(rng, rel), "version": version}]
    foreign_parent = rng.random() < 0.15
    if foreign_parent:
        # the image objects were created for ANOTHER manifest (an older-format one, or none at all) and are filed here
        ops.append({"op": "im_init", "slot": 5, "compose": pools.compose(rng, rel), "version": pick(rng, ["1.0", "1.0", "0.3", "1.2", None])})
    for i, img in enumerate(imgs):
        o = {"op": "img_new", "iid": i, "attrs": img}
        if foreign_parent and rng.random() < 0.7:
            o["parent_slot"] = pick(rng, [5, 5, None])
        if rng.random() < 0.25:
            # the caller never ASSIGNS the containers: the image's own defaults are filled in place
            o["inplace"] = [f for f in ("checksums", "additional_variants") if rng.random() < 0.7]
        ops.append(o)
    path = "/sim/d/images.json"
    variants = ["Server", "Client"]
    n = rng.randint(3, 14 if tier == "quick" else 30)
    flips = rng.random() < 0.2
    for _ in range(n):
        r = rng.random()
        if flips and rng.random() < 0.25:
            # header.version assigned on the live manifest, back and forth, with adds in between and no dump
            ops.append({"op": "im_set_version", "version": pick(rng, ["1.0", "1.2", "1.2", "1.1", "0.3"])})
        if r < 0.8:
            arch = pick(rng, pools.ARCHES[:3]) if rng.random() < 0.9 else pick(rng, pools.ARCHES_BAD)
            ops.append({"op": "img_add", "variant": pick(rng, variants), "arch": arch, "iid": rng.randrange(len(imgs))})
        elif r < 0.9:
            ops.append({"op": "dump", "path": path})
            r2 = rng.random()
            if r2 < 0.25:
                ops.append({"op": "im_inject_collision", "path": path, "version": pick(rng, ["1.0", "1.1", "1.2", "0.3", "1.3"]),
                            "where": pick(rng, ["same-cell", "other-arch", "other-variant"]), "pick": rng.randint(0, 20),
                            "same_path": rng.random() < 0.35, "raw": pick(rng, [None, None, "drop-format", "str-disc", "drop-unified"])})
            elif r2 < 0.45:
                # the node restarts on an OLDER-format copy of its own state; the identity rule applies to the
                # upgraded live object from then on
                ops.append({"op": "im_downgrade", "path": path, "version": pick(rng, ["1.0", "1.1"]), "src_variants": [], "tag": "C09"})
            if rng.random() < 0.7:
                ops.append({"op": "restart", "path": path, "via": pick(rng, ["path", "handle", "loads"]), "offset": rng.randint(0, 900)})
                # the pool is rebuilt on restart; create fresh objects to keep adding
                base = 1000 * (1 + len([o for o in ops if o["op"] == "restart"]))
                for i, img in enumerate(imgs):
                    ops.append({"op": "img_new", "iid": base + i, "attrs": dict(img, path="%s.g%d" % (img["path"], base))})
                imgs_base = base
        elif r < 0.95:
            ops.append({"op": "dumps"})
        else:
            # a stored document is loaded INTO the live manifest
            ops.append({"op": "im_load_onto", "pick": rng.randint(0, 20), "collide": rng.random() < 0.6, "version": pick(rng, ["1.2", "1.2", "1.1"])})
        # after a restart, later adds use the newest pool generation
        if ops[-1]["op"] == "img_add":
            gens = [o["iid"] - (o["iid"] % 1000) for o in ops if o["op"] == "img_new"]
            ops[-1]["iid"] = max(gens) + ops[-1]["iid"] % 1000 if gens else ops[-1]["iid"]
    ops.append({"op": "dump", "path": path})
    ops.append({"op": "restart", "path": path, "via": "path"})
    return {"machine": "M-IM", "cfg": {"simset": pick(rng, ["insertion", "shuffle", "reverse"])}, "ops": ops}
