"""Small deterministic helpers shared by the whole simulator.

Nothing in here may consult Python's hash(), id(), a clock or the global
random module: every number that influences a run is derived arithmetically
from VERIF_SEED.
"""
import hashlib
import json

MASK = (1 << 64) - 1


def splitmix64(x):
    x = (x + 0x9E3779B97F4A7C15) & MASK
    z = x
    z = ((z ^ (z >> 30)) * 0xBF58476D1CE4E5B9) & MASK
    z = ((z ^ (z >> 27)) * 0x94D049BB133111EB) & MASK
    return z ^ (z >> 31)


def mix(*parts):
    """Arithmetic mix of integers / short strings into one 64-bit value."""
    h = 0x243F6A8885A308D3
    for p in parts:
        if isinstance(p, str):
            v = 0
            for ch in p.encode("utf-8"):
                v = (v * 131 + ch) & MASK
            p = v ^ 0x5555
        h = splitmix64((h ^ (int(p) & MASK)) & MASK)
    return h


def cjson(obj):
    """Canonical JSON text (sorted keys, no whitespace variation)."""
    return json.dumps(obj, sort_keys=True, separators=(",", ":"), ensure_ascii=True, default=_default)


def _default(o):
    if isinstance(o, (set, frozenset)):
        return sorted(o, key=repr)
    if isinstance(o, bytes):
        return {"__bytes__": hashlib.sha256(o).hexdigest()[:16], "len": len(o)}
    if isinstance(o, tuple):
        return list(o)
    return repr(type(o))


def digest(obj):
    return hashlib.sha256(cjson(obj).encode("utf-8")).hexdigest()


def h64(obj):
    return int(digest(obj)[:16], 16)


def short(v, n=120):
    s = v if isinstance(v, str) else cjson(v)
    return s if len(s) <= n else s[:n] + "...(%d)" % len(s)


def exc_class(e):
    """Normalised outcome class of an exception: type name only (no text:
    messages may embed reprs)."""
    return type(e).__name__
