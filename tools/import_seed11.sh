#!/bin/sh
# tools/import_seed3.sh Cxx A|B|C : round-3 candidates from /tmp/w11-Cxx/_out -> seeded/Cxx-3A/
P="$1"; V="$2"; SRC="/tmp/w11-$P/_out"; DST="$(dirname "$0")/../seeded/$P-11$V"
[ -f "$SRC/$V.diff" ] || { echo "missing $SRC/$V.diff"; exit 1; }
mkdir -p "$DST"
cp "$SRC/$V.diff" "$DST/patch.diff" && cp "$SRC/demo_$V.py" "$DST/demo.py" && cp "$SRC/notes.md" "$DST/notes.md"
cat > "$DST/meta.json" <<EOM
{"property": "$P", "variant": "11$V", "origin": "round 11: sub-agent given only the text of $P and a scratch worktree (/tmp/w11-$P), asked for three realistic changes of any kind; no access to /verif", "needs": "see notes.md", "ran": "selftest/seeded.py --only $P-11$V"}
EOM
