"""C12 - manifest builders file each entry exactly where the arguments say.

Sequences of add calls with valid and invalid values of every parameter, compared step by step with a
reference model of the documented layout (independent NEVRA / module-UID parser); dump_for_tree with
base paths that are, are not, or only textually prefix the stored paths.
"""
from .. import gen_mf
from ..pools import pick

ID = "C12"
LEVEL = "exploration"
RUNS = {"quick": 6000, "thorough": 400000}
REQUIRED_FAULTS = ["F5.refused_api_call"]
MACHINES = ["M-RP", "M-MO", "M-XF"]


def generate(rng, tier, idx):
    machine = MACHINES[idx % 3]
    n = rng.randint(2, 14 if tier == "quick" else 40)
    ops = gen_mf.history(rng, machine, n, invalid=0.3, restarts=0.05)
    if machine == "M-RP" and rng.random() < 0.3 and len(ops) > 2:
        # the manifest the calls go on adding to was loaded from an OLDER-format file (same content)
        path = gen_mf.FILES[machine]
        cut = rng.randint(2, len(ops))
        ops[cut:cut] = [{"op": "dump", "path": path},
                        {"op": "rp_downgrade", "path": path, "version": pick(rng, ["0.3", "0.3", "0.3", "1.0", "1.1"]), "tag": "C12", "decorate": None},
                        {"op": "restart", "path": path, "via": pick(rng, ["path", "handle", "loads"]), "offset": rng.randint(0, 300)}]
        if rng.random() < 0.5:
            # ...and is then offered a call in the OLD vocabulary ('package' was 0.3's name for 'binary'): unknown category
            a = gen_mf.rpm_add(rng, invalid=0)
            if "srpm_nevra" in a:
                a["category"] = "package"
                ops.insert(rng.randint(cut + 3, len(ops)), a)
    ops.append({"op": "dump", "path": gen_mf.FILES[machine]})
    return {"machine": machine, "cfg": {}, "ops": ops}
