"""C04 - treeinfo and discinfo survive a write/read cycle (persistence invariant of M-TI / M-DI).

Besides model equality after restart and a byte-identical re-dump, every .treeinfo that reaches SimFS is
parsed by an independent minimal INI reader so that a symmetric writer/reader error is visible.
"""
from .. import gen_ti
from ..kits import KITS
from ..pools import pick

ID = "C04"
LEVEL = "exploration"
RUNS = {"quick": 6000, "thorough": 150000}
REQUIRED_FAULTS = ["F9.restart_path", "F9.restart_handle", "F9.restart_loads"]
MACHINES = ["M-TI", "M-DI"]


def gen_di_case(rng):
    K = gen_ti.gen_discinfo(rng)
    ops = KITS["M-DI"].build(K, rng) if rng.random() < 0.6 else [dict(K, op="di_init")]
    path = "/sim/d/.discinfo"
    for _ in range(rng.randint(1, 3)):
        ops.append({"op": "dump", "path": path})
        if rng.random() < 0.75:     # else: the live object goes on being used after it was written
            ops.append({"op": "restart", "path": path, "via": pick(rng, ["path", "handle", "loads"]), "offset": rng.randint(0, 40)})
        ops.append(KITS["M-DI"].mutation(K, rng))
    ops.append({"op": "dump", "path": path})
    ops.append({"op": "restart", "path": path, "via": "path"})
    _machine = "M-DI"
    tier = "quick"
    if rng.random() < 0.25:
        # a bystander object with other content lives next to the main one
        b_build, b_final = KITS[_machine].bystander(rng, tier)
        cut = rng.randint(1, len(ops))
        ops = ops[:cut] + b_build + ops[cut:] + b_final + [o for o in ops[-2:] if o["op"] in ("dump", "restart")]
    return {"machine": "M-DI", "cfg": {}, "ops": ops}


def generate(rng, tier, idx):
    if idx % 5 == 4:
        return gen_di_case(rng)
    K = gen_ti.gen_content(rng)
    ops = gen_ti.build_ops(K, rng)
    path = "/sim/d/.treeinfo"
    keys = gen_ti.top_keys(K)
    for cycle in range(rng.randint(1, 3)):
        d = {"op": "dump", "path": path}
        if rng.random() < 0.5:
            d["main_variant"] = pick(rng, keys)
        if rng.random() < 0.15:
            d["to"] = "handle"
        ops.append(d)
        if rng.random() < 0.75:     # else: the live object goes on being used after it was written
            ops.append({"op": "restart", "path": path, "via": pick(rng, ["path", "handle", "loads"]), "offset": rng.randint(0, 1500)})
        for _ in range(rng.randint(0, 3)):
            ops.append(gen_ti.valid_mutation(K, rng))
    ops.append({"op": "dump", "path": path})
    ops.append({"op": "restart", "path": path, "via": "path"})
    _machine = "M-TI"
    if rng.random() < 0.4:
        ops.extend(KITS[_machine].disturbance(K, rng))
        ops.append({"op": "dump", "path": path})
        ops.append({"op": "restart", "path": path, "via": "path"})
    if rng.random() < 0.25:
        # a bystander object with other content lives next to the main one
        b_build, b_final = KITS[_machine].bystander(rng, tier)
        cut = rng.randint(1, len(ops))
        ops = ops[:cut] + b_build + ops[cut:] + b_final + [o for o in ops[-2:] if o["op"] in ("dump", "restart")]
    return {"machine": "M-TI", "cfg": {"simset": pick(rng, ["insertion", "shuffle", "reverse", "sorted"])}, "ops": ops}
