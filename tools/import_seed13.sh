#!/bin/sh
# tools/import_seed3.sh Cxx A|B|C : round-3 candidates from /tmp/w13-Cxx/_out -> seeded/Cxx-3A/
P="$1"; V="$2"; SRC="/tmp/w13-$P/_out"; DST="$(dirname "$0")/../seeded/$P-13$V"
[ -f "$SRC/$V.diff" ] || { echo "missing $SRC/$V.diff"; exit 1; }
mkdir -p "$DST"
cp "$SRC/$V.diff" "$DST/patch.diff" && cp "$SRC/demo_$V.py" "$DST/demo.py" && cp "$SRC/notes.md" "$DST/notes.md"
cat > "$DST/meta.json" <<EOM
{"property": "$P", "variant": "13$V", "origin": "round 13: sub-agent given only the text of $P and a scratch worktree (/tmp/w13-$P), asked for two changes that need something specific to manifest (multi-step sequence, fault at a particular point, cooperating sites, unusual input); no access to /verif", "needs": "see notes.md", "ran": "selftest/seeded.py --only $P-13$V"}
EOM
