"""C20 - a compose directory resolves to the same metadata in every supported layout.

World drawn per run on SimFS: any combination of {direct metadata/, compose/metadata/, one legacy
<version>/metadata/}, each of the four files under its current name, its legacy name, both or absent, decoy
directories and files, valid or damaged content (distinct per location), trailing slash or not, adversarial
listdir order.  Ops: Compose(path) (repeated under re-drawn listdir permutations), accessors in PRNG order and
repeatedly; between accesses files are removed or replaced and read faults are armed and healed.
"""
from ..pools import pick, subset

ID = "C20"
LEVEL = "exploration"
RUNS = {"quick": 4000, "thorough": 200000}
REQUIRED_FAULTS = ["F4.damaged_file", "F6.eio_on_open", "F6.vanish_after_exists", "F7.listdir_order",
                   "F10.net_refused", "F10.net_http503", "F10.net_disconnect", "F10.net_timeout", "F10.net_body_cut"]
NET_FAULTS = ["refused", "http503", "disconnect", "timeout", "body_cut"]
MACHINES = ["M-CD"]
ASSUMPTIONS = [
    "one run in five addresses the compose by URL on a simulated host: the peer is in-process (no sockets, no TLS); what is real there is productmd's own URL handling, urllib's Request/urlopen entry and http.client.HTTPResponse parsing; redirects, proxies, authentication and real TLS failures are not simulated",
    "under a fired network fault the oracle only excludes metadata that is in none of the candidate files (how a network failure surfaces is not specified by the property); the access after the fault is judged in full",
]

ATTRS = ["info", "images", "rpms", "modules"]
NAMES = {"info": [("composeinfo.json", "composeinfo")],
         "images": [("images.json", "images"), ("image-manifest.json", "images")],
         "rpms": [("rpms.json", "rpms"), ("rpm-manifest.json", "rpms")],
         "modules": [("modules.json", "modules")]}
DAMAGES = ["torn", "garbage", "nonutf8", "empty", "bad-constraint", "missing-key", "bom", "utf16"]


def generate(rng, tier, idx):
    if idx % 5 == 4:
        return generate_remote(rng, tier, idx)
    return generate_local(rng, tier, idx)


def generate_remote(rng, tier, idx):
    """the same compose addressed by URL: an in-process peer serves the simulated disk over (fake) HTTP; directories cannot
    be listed there, so the layouts are direct and compose/ (a version-named subdirectory may be present: then nothing is
    promised about the location).  Network faults land inside the constructor's probe and inside accesses - on the n-th
    request of the access, i.e. on an existence probe, on the probe of the second candidate name or on the transfer itself."""
    root = pick(rng, ["/sim/c", "/sim/c", "/sim/compose", "/sim/x/compose", "/sim/metadata", "/sim/deep/er/c", "/sim/.hidden",
                      "/sim/F-22-20150522.2", "/sim/with space", "/sim/ünï", "/sim/a%20b", "/sim/n#4"])
    ops = [{"op": "cd_mkdir", "path": root}]
    tag = [0]

    def put(base, attr, which, dmg=None):
        name, kind = NAMES[attr][which]
        tag[0] += 1
        ops.append({"op": "cd_put", "path": "%s/metadata/%s" % (base, name), "kind": kind, "tag": tag[0], "damage": dmg})
        if dmg is None and kind != "composeinfo" and rng.random() < 0.15:
            ops[-1]["empty"] = True

    layouts = subset(rng, ["direct", "compose"], 1, 2)
    if rng.random() < 0.08:
        layouts.append("legacy")
    bases = {"direct": root, "compose": root + "/compose", "legacy": root + "/7.0"}
    for lay in layouts:
        base = bases[lay]
        ops.append({"op": "cd_mkdir", "path": base + "/metadata"})
        for attr in ATTRS:
            r = rng.random()
            if attr == "info" and lay == "compose" and rng.random() < 0.85:
                r = 0.0
            if r < 0.5:
                which = [0]
            elif r < 0.68 and len(NAMES[attr]) > 1:
                which = [1]
            elif r < 0.82 and len(NAMES[attr]) > 1:
                which = [0, 1]
            elif r < 0.86:
                which = [0]
            else:
                which = []
            for w in which:
                put(base, attr, w, pick(rng, DAMAGES) if rng.random() < 0.2 else None)
    for d in subset(rng, ["logs", "work"], 0, 2):
        ops.append({"op": "cd_mkdir", "path": "%s/%s" % (root, d)})
    given = root + ("/" if rng.random() < 0.4 else "")
    opener = {"op": "cd_open", "path": given, "repeat": rng.randint(1, 3)}
    if rng.random() < 0.25:
        opener["fault"] = pick(rng, NET_FAULTS)
        opener["nth"] = 0
    ops.append(opener)
    for _ in range(rng.randint(3, 12)):
        r = rng.random()
        attr = pick(rng, ATTRS)
        if r < 0.5:
            ops.append({"op": "cd_access", "attr": attr})
            if rng.random() < 0.3:
                ops[-1]["gc"] = True
        elif r < 0.78:
            ops.append({"op": "cd_access", "attr": attr, "fault": pick(rng, NET_FAULTS), "nth": pick(rng, [0, 0, 1, 1, 2])})
            if rng.random() < 0.3:
                # a second request of the same access fails too (both probes lost; a probe and the transfer)
                ops[-1]["more"] = [[pick(rng, NET_FAULTS), pick(rng, [0, 1, 2, 3])]]
        elif r < 0.87:
            lay = pick(rng, layouts)
            name, kind = pick(rng, NAMES[attr])
            ops.append({"op": "cd_rm", "path": "%s/metadata/%s" % (bases[lay], name)})
        else:
            lay = pick(rng, layouts)
            put(bases[lay], attr, rng.randrange(len(NAMES[attr])), pick(rng, DAMAGES) if rng.random() < 0.3 else None)
        if rng.random() < 0.1:
            ops.append({"op": "cd_open", "path": given, "repeat": 2})
        elif rng.random() < 0.1:
            ops.append({"op": "cd_bystanders", "path": given, "n": rng.randint(1, 2)})
    net = {"chunked": rng.random() < 0.4, "chunk": pick(rng, [1, 7, 64, 4096]), "piece": pick(rng, [1, 3, 17, 512, 8192, 65536]),
           "autoindex": rng.random() < 0.5, "ctype": pick(rng, ["application/json", "text/plain", "application/octet-stream", "text/html; charset=utf-8"])}
    cfg = {"listdir": "sorted", "remote": pick(rng, ["http", "http", "https"]), "net": net}
    return {"machine": "M-CD", "cfg": cfg, "ops": ops}


def generate_local(rng, tier, idx):
    root = pick(rng, ["/sim/c", "/sim/c", "/sim/compose[1]", "/sim/F-22-updates[testing]-20150522.2", "/sim/with space", "/sim/st*r?",
                      "/sim/ünï", "/sim/deep/er/c", "/sim/.hidden", "/sim/compose", "/sim/x/compose", "/sim/metadata", "/sim/n#4", "/sim/what?", "/sim/a%20b"])
    ops = [{"op": "cd_mkdir", "path": root}]
    via_link = None
    if rng.random() < 0.1:
        # the compose is reached through a symbolic link and '..': <top>/latest/../<name> with latest -> store/f22/cur names
        # a SIBLING of the link's target, not <top>/<name>
        top = "/sim/top%d" % rng.randint(0, 2)
        root = top + "/store/f22/" + pick(rng, ["c", "F-22-20150521.0", "compose"])
        ops = [{"op": "cd_mkdir", "path": top + "/store/f22/cur"}, {"op": "cd_symlink", "link": top + "/latest", "target": "store/f22/cur"},
               {"op": "cd_mkdir", "path": root}]
        if rng.random() < 0.4:
            ops.append({"op": "cd_mkdir", "path": top + "/" + root.rsplit("/", 1)[1]})     # a decoy where a textual normalisation would look
        via_link = top + "/latest/../" + root.rsplit("/", 1)[1]
    tag = [0]

    def put(base, attr, which, dmg=None):
        name, kind = NAMES[attr][which]
        tag[0] += 1
        ops.append({"op": "cd_put", "path": "%s/metadata/%s" % (base, name), "kind": kind, "tag": tag[0], "damage": dmg})
        if dmg is None and kind != "composeinfo" and rng.random() < 0.15:
            ops[-1]["empty"] = True

    layouts = subset(rng, ["direct", "compose", "legacy"], 1, 3)
    if rng.random() < 0.5:
        layouts = [pick(rng, ["direct", "compose", "legacy"])]
    legacy_name = pick(rng, ["7.0", "1.0", "6.5", "Server", ".1", "1.0 beta", "[x]"])
    bases = {"direct": root, "compose": root + "/compose", "legacy": root + "/" + legacy_name}
    for lay in layouts:
        base = bases[lay]
        ops.append({"op": "cd_mkdir", "path": base + "/metadata"})
        for attr in ATTRS:
            r = rng.random()
            if attr == "info" and lay == "compose" and rng.random() < 0.85:
                r = 0.0       # compose/ is only preferred when it holds composeinfo.json
            if r < 0.55:
                which = [0]
            elif r < 0.7 and len(NAMES[attr]) > 1:
                which = [1]
            elif r < 0.8 and len(NAMES[attr]) > 1:
                which = [0, 1]
            elif r < 0.85:
                which = [0]
            else:
                which = []
            for w in which:
                dmg = pick(rng, DAMAGES) if rng.random() < 0.2 else None
                put(base, attr, w, dmg)
    # decoys
    for d in subset(rng, ["logs", "work", "tmp.d", "0.9"], 0, 3):
        ops.append({"op": "cd_mkdir", "path": "%s/%s" % (root, d)})
    for f in subset(rng, ["STATUS", "COMPOSE_ID", "metadata.txt"], 0, 2):
        ops.append({"op": "cd_touch", "path": "%s/%s" % (root, f)})
    given = (via_link or root) + ("/" if rng.random() < 0.4 else "")
    opener = {"op": "cd_open", "path": given, "repeat": rng.randint(1, 4)}
    cwd = None
    if rng.random() < 0.15 and not via_link:
        cwd = root.rsplit("/", 1)[0]
        opener["relative"] = pick(rng, ["bare", "dot"])
    ops.append(opener)
    # which base will be used is decided by the machine; accesses + disturbances
    for _ in range(rng.randint(3, 12)):
        r = rng.random()
        attr = pick(rng, ATTRS)
        if r < 0.6:
            ops.append({"op": "cd_access", "attr": attr})
            if rng.random() < 0.3:
                ops[-1]["gc"] = True
        elif r < 0.75:
            ops.append({"op": "cd_access", "attr": attr, "fault": pick(rng, ["vanish", "eio_open", "eacces", "eio_read"])})
        elif r < 0.85:
            lay = pick(rng, layouts)
            name, kind = pick(rng, NAMES[attr])
            ops.append({"op": "cd_rm", "path": "%s/metadata/%s" % (bases[lay], name)})
        else:
            lay = pick(rng, layouts)
            put(bases[lay], attr, rng.randrange(len(NAMES[attr])), pick(rng, DAMAGES) if rng.random() < 0.3 else None)
        if rng.random() < 0.1:
            ops.append({"op": "cd_open", "path": given, "repeat": 2})
        elif rng.random() < 0.12:
            # OTHER Compose objects are opened and read in the same process; what this one has loaded stays its own
            ops.append({"op": "cd_bystanders", "path": given, "n": rng.randint(1, 3)})
    cfg = {"listdir": pick(rng, ["shuffle", "shuffle", "reverse", "sorted"])}
    if cwd:
        cfg["cwd"] = cwd
    return {"machine": "M-CD", "cfg": cfg, "ops": ops}
