"""Independent minimal INI reader (NOT configparser).

Used as an oracle on every .treeinfo that reaches the simulated disk, so that
a symmetric writer/reader error inside productmd's SortedConfigParser (for
example option-name case folding, or unsorted output) is visible.

Returns an ordered list of (section, [(option, value), ...]) exactly as they
appear in the text; comment lines (first non-blank char '#' or ';') are kept
out of the option list but returned separately.
"""


class IniError(ValueError):
    pass


def parse(text):
    sections = []
    comments = []
    cur = None
    last = None
    for lineno, raw in enumerate(text.split("\n"), 1):
        line = raw.rstrip("\r")
        if not line.strip():
            last = None
            continue
        if line[0] in " \t":
            # continuation of the previous value
            if last is None:
                raise IniError("line %d: continuation without option" % lineno)
            cur[1][-1] = (cur[1][-1][0], cur[1][-1][1] + "\n" + line.strip())
            continue
        s = line.strip()
        if s[0] in "#;":
            comments.append((cur[0] if cur else None, s))
            continue
        if s[0] == "[":
            if not s.endswith("]"):
                raise IniError("line %d: bad section header" % lineno)
            cur = (s[1:-1], [])
            sections.append(cur)
            last = None
            continue
        if cur is None:
            raise IniError("line %d: option before any section" % lineno)
        idx = [i for i in (s.find("="), s.find(":")) if i >= 0]
        if not idx:
            raise IniError("line %d: no delimiter" % lineno)
        i = min(idx)
        key, val = s[:i].strip(), s[i + 1:].strip()
        cur[1].append((key, val))
        last = key
    return sections, comments


def as_dict(text):
    sections, _ = parse(text)
    out = {}
    for name, opts in sections:
        if name in out:
            raise IniError("duplicate section %s" % name)
        d = {}
        for k, v in opts:
            if k in d:
                raise IniError("duplicate option %s in %s" % (k, name))
            d[k] = v
        out[name] = d
    return out


def is_sorted(text):
    """(ok, why): sections sorted, options sorted inside each section."""
    sections, _ = parse(text)
    names = [n for n, _ in sections]
    if names != sorted(names):
        return False, "sections not sorted: %s" % names
    for n, opts in sections:
        keys = [k for k, _ in opts]
        if keys != sorted(keys):
            return False, "options of [%s] not sorted: %s" % (n, keys)
    return True, ""
