from . import ci, im  # noqa: F401
