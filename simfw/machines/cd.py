"""M-CD: a node holding a productmd.compose.Compose over a SimFS directory tree.

The world (which metadata files exist where, under which names, valid or damaged) is built by cd_put /
cd_mkdir / cd_rm ops; the harness keeps a record {path: {kind, tag, damage}} so the oracle knows which file
an accessor must have read.
"""
import gc
import posixpath
import weakref

from ..core import register_machine, Violation, MachineBase
from ..seams import CTX, HarnessError
from ..util import cjson, h64, exc_class
from .. import pools
from .. import simnet

KINDS = {"info": "composeinfo", "images": "images", "rpms": "rpms", "modules": "modules"}
CANDIDATES = {
    "info": ["metadata/composeinfo.json"],
    "images": ["metadata/images.json", "metadata/image-manifest.json"],
    "rpms": ["metadata/rpms.json", "metadata/rpm-manifest.json"],
    "modules": ["metadata/modules.json"],
}


def make_doc(kind, tag, empty=False):
    """A small valid document of `kind`, made distinct by `tag` (written by productmd itself); `empty`: a manifest that
    lists nothing yet (a compose without images / modules is a valid compose)"""
    import productmd.composeinfo, productmd.images, productmd.rpms, productmd.modules
    respin = int(tag)
    cid = "T-1.0-20200101.%d" % respin
    if empty and kind != "composeinfo":
        o = {"images": productmd.images.Images, "rpms": productmd.rpms.Rpms, "modules": productmd.modules.Modules}[kind]()
    elif kind == "composeinfo":
        o = productmd.composeinfo.ComposeInfo()
        o.release.name, o.release.short, o.release.version, o.release.type = "Test", "T", "1.0", "ga"
        v = productmd.composeinfo.Variant(o)
        v.id = v.uid = "Server"
        v.name = "Server %d" % respin
        v.type = "variant"
        v.arches = set(["x86_64"])
        o.variants.add(v)
    elif kind == "images":
        o = productmd.images.Images()
        i = productmd.images.Image(o)
        i.path, i.mtime, i.size, i.volume_id, i.type, i.format, i.arch = "Server/x86_64/iso/b%d.iso" % respin, 1, 1 + respin, None, "boot", "iso", "x86_64"
        i.disc_number = i.disc_count = 1
        i.checksums = {"md5": "%032x" % respin}
        i.implant_md5, i.bootable, i.subvariant = None, True, "Server"
        o.add("Server", "x86_64", i)
    elif kind == "rpms":
        o = productmd.rpms.Rpms()
        o.add("Server", "x86_64", "bash-0:4.%d-1.x86_64" % respin, "Server/x86_64/os/Packages/b/bash.rpm", None, "binary", "bash-0:4.%d-1.src" % respin)
    else:
        o = productmd.modules.Modules()
        o.add("Server", "x86_64", "nodejs:10:%d:c0ffee" % (respin + 1), "tag-%d" % respin, "Server/x86_64/os/repodata/m.yaml", "binary", [])
    o.compose.id, o.compose.type, o.compose.date, o.compose.respin = cid, "production", "20200101", respin
    return o.dumps()


def damage(text, how):
    if how == "torn":
        return text[:max(1, len(text) // 2)].encode("utf-8")
    if how == "garbage":
        return b"\x00\x01 not json at all {{{{"
    if how == "nonutf8":
        return text.encode("utf-8")[:20] + b"\xff\xfe\xfa" + text.encode("utf-8")[20:]
    if how == "empty":
        return b""
    if how == "bad-constraint":
        return text.replace('"type": "production"', '"type": "bogus"').encode("utf-8")
    if how == "missing-key":
        return b"{}"
    if how == "bom":
        return b"\xef\xbb\xbf" + text.encode("utf-8")      # well-formed content in another ENCODING: whatever a direct load
    if how == "utf16":
        return text.encode("utf-16")                       # of that file does, the accessor does (differential, see below)
    return text.encode("utf-8")


# which damages must surface as RuntimeError naming the location ("undecodable" / rejected with a value error)
MUST_RUNTIME = ("torn", "garbage", "nonutf8", "empty", "bad-constraint")


@register_machine("M-CD")
class CDMachine(MachineBase):
    def __init__(self, ctx, cfg):
        MachineBase.__init__(self, ctx, cfg)
        self.rec = {}           # normalised file path -> {kind, tag, damage}
        self.compose = None
        self.cpath = None       # path given to Compose()
        self.cached = {}        # attr -> object
        self.world_at_open = None
        self.cached_tag = {}
        self.remote = cfg.get("remote")        # None | "http" | "https": the compose is addressed by URL on the simulated host
        self.net = ctx.net
        self.fs.mkdirs("/sim/c")

    def state_hash(self):
        return h64([sorted(self.rec.items()), self.cpath, sorted(self.cached)])

    # ---- world ------------------------------------------------------------------------------
    def op_cd_put(self, op):
        path = posixpath.normpath(op["path"])
        text = make_doc(op["kind"], op["tag"], op.get("empty", False))
        if op.get("empty"):
            CTX.probe("c20.manifest_that_lists_nothing")
        self.fs.put(path, damage(text, op.get("damage")))
        self.rec[path] = {"kind": op["kind"], "tag": op["tag"], "damage": op.get("damage")}
        if op.get("damage"):
            CTX.fault("F4.damaged_file" if op["damage"] != "bad-constraint" else "F3.constraint_violating_file")
        return "ok"

    def op_cd_mkdir(self, op):
        self.fs.mkdirs(op["path"])
        return "ok"

    def op_cd_symlink(self, op):
        """a symbolic link inside the tree ('latest-F-22' -> 'store/f22/F-22-20150522.0')"""
        import os
        from .. import simfs
        link = self.fs.real(op["link"])
        simfs._o["makedirs"](os.path.dirname(link), exist_ok=True)
        if not os.path.lexists(link):
            simfs._o["symlink"](op["target"], link)
        return "ok"

    def canon(self, p):
        """the location a path really names: symbolic links resolved the way the kernel does (component by component, so
        'link/..' is the parent of the link's TARGET), as a normalised path under the virtual root"""
        import os
        from .. import simfs
        if "://" in p:
            q = simnet.sim_of(p)
            if q is None:
                raise Violation("C20", "C20.layout_resolution", "compose_path-on-another-host", {"got": p[:120]})
            return q
        real = os.path.realpath(simfs.to_real(simfs.resolve(p)))
        return posixpath.normpath(simfs.to_sim(real))

    def op_cd_touch(self, op):
        self.fs.put(op["path"], b"decoy")
        return "ok"

    def op_cd_rm(self, op):
        path = posixpath.normpath(op["path"])
        if path not in self.rec:
            return "noop"
        self.fs.remove(path)
        del self.rec[path]
        return "ok"

    # ---- oracle helpers ------------------------------------------------------------------------
    def _legacy_candidates(self, root):
        root = posixpath.normpath(root)
        out = []
        pre = root + "/"
        names = set()
        for p in list(self.fs.files) + list(self.fs.dirs):
            if p.startswith(pre):
                names.add(p[len(pre):].split("/")[0])
        for n in sorted(names):
            sub = pre + n
            if sub in self.fs.dirs and ((sub + "/metadata") in self.fs.dirs or (sub + "/metadata") in self.fs.files):
                out.append(sub)
        return out

    def expected_compose_paths(self, given):
        """set of acceptable compose_path values (normalised); a singleton where the property decides."""
        root = self.canon(given)
        if (root + "/compose/metadata/composeinfo.json") in self.fs.files:
            return [root + "/compose"], "compose-preferred"
        legacy = self._legacy_candidates(root)
        direct = (root + "/metadata") in self.fs.dirs
        if self.remote and legacy:
            # directories cannot be listed over HTTP: whether a version-named subdirectory is found there is not promised
            return legacy + [root], "remote+legacy(silent)"
        if not legacy:
            return [root], "direct" if direct else "nothing"
        if len(legacy) == 1 and not direct:
            return [legacy[0]], "legacy"
        if len(legacy) == 1 and direct:
            return [legacy[0], root], "direct+legacy(silent)"
        return legacy + [root], "several-legacy(silent)"

    def op_cd_open(self, op):
        import productmd.compose
        given = op.get("path", "/sim/c")
        want, why = self.expected_compose_paths(given)
        results = []
        k = op.get("repeat", 1)
        arg = given
        cwd = self.cfg.get("cwd")
        if self.remote:
            arg = simnet.url_of(self.remote, given)
        elif op.get("relative") and cwd and given.startswith(cwd.rstrip("/") + "/"):
            # the compose is addressed RELATIVELY to the current directory (a tool started next to the compose)
            arg = given[len(cwd.rstrip("/")) + 1:]
            if op["relative"] == "dot":
                arg = "./" + arg
        net_fault = None
        for i in range(k):
            if self.remote and op.get("fault") and i == 0:
                self.net.arm(op["fault"], op.get("nth", 0))
            try:
                c = productmd.compose.Compose(arg)
            except Exception as e:
                if isinstance(e, HarnessError):
                    raise
                if self.remote and self.net.fired:
                    # the network failed while the layout was being probed: the failure may surface; nothing was opened
                    self.net.disarm()
                    self.count("C20", ["open-net-fault", self.net.fired, "raised"])
                    return "open-fault:" + exc_class(e)
                raise Violation("C20", "C20.compose_opens", "Compose()-raises/%s" % exc_class(e), {"msg": str(e)[:160], "layout": why})
            if self.remote:
                net_fault = net_fault or self.net.fired
                self.net.disarm()
            results.append(self._simpath(c.compose_path))
        self.compose = c
        self.cpath = given
        self.cached = {}
        self.count("C20", ["open", why, given.endswith("/"), k])
        CTX.probe("c20.layout." + why)
        if self.remote:
            CTX.probe("c20.opened_by_url")
        if net_fault:
            # a probe was lost: the object may have settled for the location as given; later constructions (no fault) are judged
            self.count("C20", ["open-net-fault", net_fault, "opened"])
            want = want + [self.canon(given)]
            if len(results) > 1:
                results = results[1:]
            else:
                return "open-under-fault:" + why
        if results[0] not in want:
            raise Violation("C20", "C20.layout_resolution", "compose_path-wrong/%s" % why.split("(")[0],
                            {"got": results[0], "want": want, "given": given})
        if len(want) == 1 or why.startswith("direct+legacy"):
            if len(set(results)) != 1:
                raise Violation("C20", "C20.independent_of_listdir_order", "compose_path-depends-on-listdir-order",
                                {"results": sorted(set(results))})
        return "open:" + why

    def op_cd_bystanders(self, op):
        """other Compose objects live in the same process (a tool comparing composes): each is opened and all four of its
        documents are read; nothing is judged here - the object under test must keep what it loaded"""
        import productmd.compose
        keep = getattr(self, "_bystanders", None)
        if keep is None:
            keep = self._bystanders = []
        n_ok = 0
        for i in range(op.get("n", 1)):
            try:
                c = productmd.compose.Compose(simnet.url_of(self.remote, op.get("path", "/sim/c")) if self.remote else op.get("path", "/sim/c"))
            except Exception as e:
                if isinstance(e, HarnessError):
                    raise
                continue
            keep.append(c)
            for attr in ("info", "images", "rpms", "modules"):
                try:
                    getattr(c, attr)
                    n_ok += 1
                except Exception as e:
                    if isinstance(e, HarnessError):
                        raise
        CTX.probe("c20.other_compose_objects_read_in_between")
        return "bystanders:%d" % n_ok

    def _simpath(self, p):
        """a path as the Compose object spells it -> the normalised path under the virtual root"""
        return self.canon(p)

    def _expected_file(self, attr):
        base = self._simpath(self.compose.compose_path)
        for cand in CANDIDATES[attr]:
            p = posixpath.normpath(posixpath.join(base, cand))
            if p in self.fs.files:
                return p
        return None

    def op_cd_access(self, op):
        import productmd.composeinfo, productmd.images, productmd.rpms, productmd.modules
        if self.compose is None:
            return "noop"
        if self.remote:
            return self._access_remote(op)
        attr = op["attr"]
        base = posixpath.normpath(self.compose.compose_path)        # as the object spells it (what its messages name)
        target = self._expected_file(attr)
        fault = op.get("fault")
        was_cached = attr in self.cached
        if fault and target is not None and not was_cached:
            if fault == "vanish":
                self.fs.arm("F6.vanish_after_exists", target)
            elif fault == "eio_open":
                self.fs.arm("F6.eio_on_open", target)
            elif fault == "eacces":
                self.fs.arm("F6.eacces_on_open", target)
            else:
                self.fs.arm("F6.eio_at_offset", target, offset=0)
        if op.get("gc"):
            gc.collect()        # the caller kept no reference to what an earlier access returned; a collection happens
        mark = len(self.fs.trace)
        try:
            obj = getattr(self.compose, attr)
            raised = None
        except Exception as e:
            if isinstance(e, HarnessError):
                raise
            raised = e
        fired = bool(fault) and target is not None and not was_cached and not self.fs.armed
        vanished = fired and fault == "vanish"
        self.fs.disarm()
        if vanished:
            self.rec.pop(target, None)
        opens = [t for t in self.fs.trace[mark:] if t[0].startswith("open")]
        # (c) cached: identical object, no further I/O on the file
        if was_cached:
            self.count("C20", ["cached", attr, target is None])
            if raised is not None:
                raise Violation("C20", "C20.loaded_once_then_reused", "cached-access-raises/%s" % exc_class(raised), {"attr": attr})
            if obj is not self.cached[attr]():
                raise Violation("C20", "C20.loaded_once_then_reused", "cached-object-replaced", {"attr": attr})
            if opens:
                raise Violation("C20", "C20.loaded_once_then_reused", "file-reopened-on-cached-access", {"attr": attr, "opens": len(opens)})
            if target is None or self.rec.get(target, {}).get("tag") != self.cached_tag.get(attr):
                CTX.probe("c20.cached_reused_after_file_changed")
            return "cached"
        if fired:
            self.count("C20", ["fault", attr, fault])
            if raised is None:
                raise Violation("C20", "C20.read_fault_surfaces", "object-returned-despite-%s" % fault, {"attr": attr})
            return "fault:" + exc_class(raised)
        if target is None:
            self.count("C20", ["missing", attr])
            if raised is None:
                raise Violation("C20", "C20.missing_file_is_runtimeerror", "object-for-missing-file", {"attr": attr})
            if not isinstance(raised, RuntimeError):
                raise Violation("C20", "C20.missing_file_is_runtimeerror", "missing-file-exctype/%s" % exc_class(raised), {"attr": attr})
            if base not in str(raised) and self.compose.compose_path.rstrip("/") not in str(raised):
                raise Violation("C20", "C20.error_names_location", "missing-file-error-lacks-location", {"msg": str(raised)[:200], "base": base})
            return "missing"
        rec = self.rec.get(target)
        if rec is None:
            return "unknown-file"
        dmg = rec["damage"]
        if rec["kind"] != KINDS[attr]:
            # a file of another type under this name: rejected one way or another (type gate) - only "raises"
            if raised is None and dmg is None:
                raise Violation("C20", "C20.wrong_type_rejected", "wrong-metadata-type-loaded", {"attr": attr, "kind": rec["kind"]})
            return "wrong-kind"
        if dmg in ("bom", "utf16"):
            # differential: the accessor must do what the library's own load(path) does with that very file
            cls0 = {"info": productmd.composeinfo.ComposeInfo, "images": productmd.images.Images, "rpms": productmd.rpms.Rpms,
                    "modules": productmd.modules.Modules}[attr]
            probe = cls0()
            self.fs.disarm()
            try:
                probe.load(target)
                direct_ok = True
            except Exception as e:
                if isinstance(e, HarnessError):
                    raise
                direct_ok = False
            self.count("C20", ["other-encoding", attr, dmg, direct_ok, raised is None])
            if direct_ok != (raised is None):
                raise Violation("C20", "C20.accessor_equals_direct_load", "accessor-vs-direct-load-disagree/%s" % dmg,
                                {"attr": attr, "direct_load_ok": direct_ok, "accessor_raised": exc_class(raised) if raised else None})
            if raised is not None:
                if not isinstance(raised, RuntimeError):
                    raise Violation("C20", "C20.undecodable_file_is_runtimeerror", "damaged-file-exctype/%s/%s" % (dmg, exc_class(raised)), {"attr": attr})
                return "damaged:" + exc_class(raised)
            if obj.dumps() != probe.dumps():
                raise Violation("C20", "C20.accessor_equals_direct_load", "accessor-differs-from-direct-load", {"attr": attr, "file": target})
            self.cached[attr] = weakref.ref(obj)      # the Compose object owns what it loaded, not the observer
            self.cached_tag[attr] = rec["tag"]
            return "loaded-other-encoding"
        if dmg:
            self.count("C20", ["damaged", attr, dmg])
            if raised is None:
                raise Violation("C20", "C20.undecodable_file_is_runtimeerror", "object-for-damaged-file/%s" % dmg, {"attr": attr})
            if dmg in MUST_RUNTIME:
                if not isinstance(raised, RuntimeError):
                    raise Violation("C20", "C20.undecodable_file_is_runtimeerror", "damaged-file-exctype/%s/%s" % (dmg, exc_class(raised)),
                                    {"attr": attr, "msg": str(raised)[:160]})
                if base not in str(raised) and self.compose.compose_path.rstrip("/") not in str(raised):
                    raise Violation("C20", "C20.error_names_location", "damaged-file-error-lacks-location", {"msg": str(raised)[:200]})
            return "damaged:" + exc_class(raised)
        # valid file: must equal a direct load of that very file
        self.count("C20", ["valid", attr, posixpath.basename(target), base.rsplit("/", 1)[-1] == "compose"])
        if posixpath.basename(target) in ("image-manifest.json", "rpm-manifest.json"):
            CTX.probe("c20.legacy_file_name_used")
        if raised is not None:
            raise Violation("C20", "C20.valid_file_loads", "valid-file-raises/%s" % exc_class(raised), {"attr": attr, "msg": str(raised)[:200]})
        cls = {"info": productmd.composeinfo.ComposeInfo, "images": productmd.images.Images, "rpms": productmd.rpms.Rpms,
               "modules": productmd.modules.Modules}[attr]
        direct = cls()
        direct.loads(self.fs.get(target).decode("utf-8"))
        if not isinstance(obj, cls) or obj.dumps() != direct.dumps():
            raise Violation("C20", "C20.accessor_equals_direct_load", "accessor-differs-from-direct-load",
                            {"attr": attr, "file": target, "got_id": getattr(getattr(obj, "compose", None), "id", None), "want_id": direct.compose.id})
        n_open = len([t for t in opens if t[0] == "open_r" and t[1] == target])
        if n_open < 1:
            raise Violation("C20", "C20.accessor_equals_direct_load", "object-returned-without-reading-the-file", {"attr": attr})
        self.cached[attr] = weakref.ref(obj)      # the Compose object owns what it loaded, not the observer
        self.cached_tag[attr] = rec["tag"]
        return "loaded"

    # ---- the same accessors when the compose is addressed by URL ------------------------------------------------
    def _direct(self, attr, path):
        """what loading the file at `path` directly gives (None if it cannot be loaded)"""
        import productmd.composeinfo, productmd.images, productmd.rpms, productmd.modules
        cls = {"info": productmd.composeinfo.ComposeInfo, "images": productmd.images.Images, "rpms": productmd.rpms.Rpms,
               "modules": productmd.modules.Modules}[attr]
        o = cls()
        try:
            o.loads(self.fs.get(path).decode("utf-8"))
        except Exception as e:
            if isinstance(e, HarnessError):
                raise
            return None, cls
        return o, cls

    def _access_remote(self, op):
        attr = op["attr"]
        spelled = self.compose.compose_path.rstrip("/")
        target = self._expected_file(attr)
        fault = op.get("fault") if op.get("fault") in simnet.FAULT_KINDS else None
        was_cached = attr in self.cached
        if fault and not was_cached:
            self.net.arm(fault, op.get("nth", 0), op.get("more"))
            if op.get("more"):
                CTX.probe("c20.several_network_faults_in_one_access")
        if op.get("gc"):
            gc.collect()
        mark = len(self.net.trace)
        try:
            obj = getattr(self.compose, attr)
            raised = None
        except Exception as e:
            if isinstance(e, HarnessError):
                raise
            raised = e
        fired = self.net.fired if (fault and not was_cached) else None
        self.net.disarm()
        self.net.fired = None
        reqs = self.net.trace[mark:]
        if was_cached:
            self.count("C20", ["cached-remote", attr, target is None])
            if raised is not None:
                raise Violation("C20", "C20.loaded_once_then_reused", "cached-access-raises/%s" % exc_class(raised), {"attr": attr})
            if obj is not self.cached[attr]():
                raise Violation("C20", "C20.loaded_once_then_reused", "cached-object-replaced", {"attr": attr})
            if reqs:
                raise Violation("C20", "C20.loaded_once_then_reused", "file-requested-again-on-cached-access", {"attr": attr, "requests": len(reqs)})
            if target is None or self.rec.get(target, {}).get("tag") != self.cached_tag.get(attr):
                CTX.probe("c20.cached_reused_after_file_changed")
            return "cached"
        if fired:
            # the network failed during this access.  Nothing says HOW that surfaces; what must not happen is metadata that is
            # in none of the files: either the access raises, or it returns what one of the candidate files really holds
            self.count("C20", ["net-fault", attr, fired, raised is None])
            if raised is not None:
                return "fault:" + exc_class(raised)
            base = self._simpath(self.compose.compose_path)
            for cand in CANDIDATES[attr]:
                p = posixpath.normpath(posixpath.join(base, cand))
                r = self.rec.get(p)
                if p in self.fs.files and r and not r["damage"] and r["kind"] == KINDS[attr]:
                    direct, cls = self._direct(attr, p)
                    if direct is not None and isinstance(obj, cls) and obj.dumps() == direct.dumps():
                        self.cached[attr] = weakref.ref(obj)      # the Compose object owns what it loaded, not the observer
                        self.cached_tag[attr] = r["tag"]
                        CTX.probe("c20.loaded_despite_net_fault")
                        return "loaded-under-fault"
            raise Violation("C20", "C20.read_fault_surfaces", "object-returned-despite-net-%s" % fired, {"attr": attr})
        if target is None:
            self.count("C20", ["missing-remote", attr])
            if raised is None:
                raise Violation("C20", "C20.missing_file_is_runtimeerror", "object-for-missing-file", {"attr": attr})
            if not isinstance(raised, RuntimeError):
                raise Violation("C20", "C20.missing_file_is_runtimeerror", "missing-file-exctype/%s" % exc_class(raised), {"attr": attr})
            if spelled not in str(raised):
                raise Violation("C20", "C20.error_names_location", "missing-file-error-lacks-location", {"msg": str(raised)[:200], "base": spelled})
            return "missing"
        rec = self.rec.get(target)
        if rec is None:
            return "unknown-file"
        dmg = rec["damage"]
        if rec["kind"] != KINDS[attr]:
            if raised is None and dmg is None:
                raise Violation("C20", "C20.wrong_type_rejected", "wrong-metadata-type-loaded", {"attr": attr, "kind": rec["kind"]})
            return "wrong-kind"
        if dmg in ("bom", "utf16"):
            return "other-encoding-remote(unspecified)"
        if dmg:
            self.count("C20", ["damaged-remote", attr, dmg])
            if raised is None:
                raise Violation("C20", "C20.undecodable_file_is_runtimeerror", "object-for-damaged-file/%s" % dmg, {"attr": attr})
            if dmg in MUST_RUNTIME:
                if not isinstance(raised, RuntimeError):
                    raise Violation("C20", "C20.undecodable_file_is_runtimeerror", "damaged-file-exctype/%s/%s" % (dmg, exc_class(raised)),
                                    {"attr": attr, "msg": str(raised)[:160]})
                if spelled not in str(raised):
                    raise Violation("C20", "C20.error_names_location", "damaged-file-error-lacks-location", {"msg": str(raised)[:200]})
            return "damaged:" + exc_class(raised)
        self.count("C20", ["valid-remote", attr, posixpath.basename(target), spelled.rsplit("/", 1)[-1] == "compose",
                           bool(self.net.knobs.get("chunked"))])
        if posixpath.basename(target) in ("image-manifest.json", "rpm-manifest.json"):
            CTX.probe("c20.legacy_file_name_used")
        if raised is not None:
            raise Violation("C20", "C20.valid_file_loads", "valid-file-raises/%s" % exc_class(raised), {"attr": attr, "msg": str(raised)[:200]})
        direct, cls = self._direct(attr, target)
        if direct is None or not isinstance(obj, cls) or obj.dumps() != direct.dumps():
            raise Violation("C20", "C20.accessor_equals_direct_load", "accessor-differs-from-direct-load",
                            {"attr": attr, "file": target, "got_id": getattr(getattr(obj, "compose", None), "id", None)})
        if not [t for t in reqs if t[1] == target and t[2] == "200"]:
            raise Violation("C20", "C20.accessor_equals_direct_load", "object-returned-without-reading-the-file", {"attr": attr})
        CTX.probe("c20.loaded_by_url")
        self.cached[attr] = weakref.ref(obj)      # the Compose object owns what it loaded, not the observer
        self.cached_tag[attr] = rec["tag"]
        return "loaded"
