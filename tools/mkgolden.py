#!/venv/bin/python
"""Record the reference behaviour of the pre-productmd (.treeinfo without a header) reader for a fixed, deterministic set
of synthetic legacy files that exercise its release-specific rules (RHEL 3/4/5/6 layouts, Fedora, CentOS, unknown
families, version strings with decorations, with / without a `variant` option, packagedir / repository variants, disc
numbering).  There is NO documentation of that mapping beyond the reader itself and one converted example, so the recorded
result on the tree as fixed (see known_findings.json) IS the reference model the C05 check refines against:
golden/treeinfo-pre-productmd.json.     Usage: tools/mkgolden.py   (only when the reference is deliberately re-recorded)"""
import json
import os
import random
import sys

VERIF = os.path.dirname(os.path.dirname(os.path.abspath(__file__)))
sys.path.insert(0, VERIF)


def documents():
    rng = random.Random(20260926)
    families = ["Red Hat Enterprise Linux Server", "Red Hat Enterprise Linux Client", "Red Hat Enterprise Linux", "Red Hat Enterprise Linux AS",
                "Red Hat Enterprise Linux Workstation", "Red Hat Enterprise Linux ComputeNode", "Fedora", "Fedora-Server", "Fedora Workstation",
                "CentOS", "CentOS Linux", "EulerOS", "EulerOS V2.0SP5", "Oracle Linux", "Scientific Linux", "Subscription Asset Manager", "Red Hat Storage",
                "JBEAP", "Red Hat Storage Software Appliance", "My Product"]
    versions = ["5.11", "5", "5.0", "6.5", "6", "7.0", "7.2", "3", "3.9", "4.8", "21", "8", "8.1.1911", "7.0-Beta", "6.5_RC", "rawhide"]
    arches = ["x86_64", "i386", "ppc", "s390x", "ia64", "src"]
    docs = []
    for _ in range(420):
        fam, ver, arch = rng.choice(families), rng.choice(versions), rng.choice(arches)
        g = {"family": fam, "version": ver, "arch": arch, "name": "%s %s" % (fam, ver), "timestamp": rng.choice(["1417653911.68", "1285193176", "1.5"])}
        r = rng.random()
        if r < (0.5 if fam.startswith("Red Hat Enterprise Linux") else 0.92):
            g["variant"] = rng.choice(["Server", "Client", "AS", "ES", "WS", "Workstation", "ComputeNode", "Everything"])
        r = rng.random()
        if r < 0.3:
            g["packagedir"] = ""
        elif r < 0.7:
            g["packagedir"] = rng.choice(["Packages", "Server", "RedHat/RPMS", "Client", "a/b/"])
        if rng.random() < 0.4:
            g["repository"] = rng.choice([".", "Server", "repo/os", "Server/repodata", "Client/"])
        if rng.random() < 0.25:
            n = rng.randint(1, 3)
            g["discnum"] = str(n)
            if rng.random() < 0.6:
                g["totaldiscs"] = str(n + rng.randint(0, 2))
        if rng.random() < 0.2:
            g["variants"] = g.get("variant", "Server")
        if rng.random() < 0.15:
            g["identity"] = "%s/%s.pem" % (g.get("variant", "Server"), g.get("variant", "Server"))
        lines = ["[general]"] + ["%s = %s" % (k, g[k]) for k in sorted(g)]
        if arch != "src" and rng.random() < 0.6:
            lines += ["", "[images-%s]" % arch, "kernel = images/pxeboot/vmlinuz", "initrd = images/pxeboot/initrd.img"]
            if rng.random() < 0.4:
                lines += ["", "[images-xen]", "kernel = images/xen/vmlinuz"]
        if rng.random() < 0.3:
            lines += ["", "[stage2]", "mainimage = images/install.img"]
        if rng.random() < 0.2:
            lines += ["", "[checksums]", "images/install.img = sha256:" + "ab" * 32]
        docs.append("\n".join(lines) + "\n")
    return docs


def observe(text):
    import productmd.treeinfo
    from simfw.machines.ti import observe_ti
    ti = productmd.treeinfo.TreeInfo()
    try:
        ti.loads(text)
    except Exception as e:
        return {"error": type(e).__name__}
    o = observe_ti(ti)
    if isinstance(o["tree"]["build_timestamp"], float):
        o["tree"]["build_timestamp"] = repr(o["tree"]["build_timestamp"])
    return o


def main():
    sys.path.insert(0, os.environ.get("VERIF_REPO", "/repo"))
    out = [{"doc": d, "want": observe(d)} for d in documents()]
    out = [x for x in out if "error" not in x["want"]]        # files the reader refuses are no reference for a conversion
    path = os.path.join(VERIF, "golden", "treeinfo-pre-productmd.json")
    with open(path, "w") as f:
        json.dump({"_doc": __doc__, "recorded_on": os.popen("git -C %s log --format=%%h -1" % os.environ.get("VERIF_REPO", "/repo")).read().strip(), "cases": out}, f, indent=0, sort_keys=True)
    errs = sum(1 for x in out if "error" in x["want"])
    print("recorded %d documents (%d of them refused by the reader) -> %s" % (len(out), errs, path))


def corpus():
    """what the readers make of every historical fixture shipped under tests/ (the property quantifies over them; the
    repository's own tests only look at a few fields of a few of them)"""
    sys.path.insert(0, os.environ.get("VERIF_REPO", "/repo"))
    from simfw import seams
    seams.install()
    from simfw.props import c05
    from simfw import core
    import simfw.machines.ci, simfw.machines.im, simfw.machines.ti, simfw.machines.mf      # noqa: register the machines
    from simfw.seams import CTX
    out = {}
    for machine, f in c05.corpus():
        m = core.machine_class(machine)(CTX, {})
        src = os.path.join(os.environ.get("VERIF_REPO", "/repo"), "tests", f)
        obj = m.new_obj()
        try:
            obj.load(src)
        except Exception as e:
            continue
        out["%s:%s" % (machine, f)] = json.loads(core.cjson(m.observe(obj)))
    path = os.path.join(VERIF, "golden", "corpus.json")
    with open(path, "w") as fo:
        json.dump({"_doc": corpus.__doc__, "cases": out}, fo, indent=0, sort_keys=True)
    print("recorded %d fixtures -> %s" % (len(out), path))


if __name__ == "__main__":
    main()
    corpus()
