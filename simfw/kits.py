"""One uniform face over the seven format machines, used by the cross-format properties
(C05, C06, C07, C08, C18): draw an abstract content K, emit the op history that builds it (in a
PRNG-permuted order), a valid mutation, and the table of poison sites (the complement of every documented
field domain, at every position of the structure)."""
from . import gen_ci, gen_im, gen_mf, gen_ti, pools
from .pools import pick, subset

FORMATS = ["M-CI", "M-IM", "M-RP", "M-MO", "M-XF", "M-TI", "M-DI"]
PATHS = {"M-CI": "/sim/d/composeinfo.json", "M-IM": "/sim/d/images.json", "M-RP": "/sim/d/rpms.json",
         "M-MO": "/sim/d/modules.json", "M-XF": "/sim/d/extra_files.json", "M-TI": "/sim/d/.treeinfo", "M-DI": "/sim/d/.discinfo"}


def _sl(o, slot):
    if slot:
        o["slot"] = slot
    return o


class Kit(object):
    def __init__(self, machine):
        self.machine = machine
        self.path = PATHS[machine]

    # -- content ------------------------------------------------------------------
    def content(self, rng, tier="quick"):
        m = self.machine
        big = tier != "quick"
        if m == "M-CI":
            return gen_ci.gen_content(rng, max_vars=7 if big else 5)
        if m == "M-IM":
            return gen_im.gen_content(rng, max_images=10 if big else 6)
        if m == "M-TI":
            return gen_ti.gen_content(rng)
        if m == "M-DI":
            return gen_ti.gen_discinfo(rng)
        # manifests: content = compose + a list of VALID adds (their order is content for list-valued parts)
        rel = {"short": pick(rng, pools.SHORTS), "version": pick(rng, pools.VERSIONS_NUM)}
        K = {"compose": pools.compose(rng, rel), "adds": []}
        variants = subset(rng, gen_mf.VARIANTS, 1, 3)
        arches = subset(rng, pools.ARCHES, 1, 3)
        srpms = []
        memo = []
        for _ in range(rng.randint(1, 12 if big else 7)):
            if m == "M-RP":
                K["adds"].append(gen_mf.rpm_add(rng, variants, arches, 0, srpms))
            elif m == "M-MO":
                K["adds"].append(gen_mf.module_add(rng, variants, arches, 0, memo))
            else:
                K["adds"].append(gen_mf.extra_add(rng, variants, arches, 0))
        return K

    # -- construction ----------------------------------------------------------------
    def build(self, K, rng, slot=0, permute=True):
        m = self.machine
        if m == "M-CI":
            return gen_ci.build_ops(K, rng, slot=slot, permute=permute, noise=0.06)
        if m == "M-IM":
            return gen_im.build_ops(K, rng, slot=slot, permute=permute)
        if m == "M-TI":
            return gen_ti.build_ops(K, rng, slot=slot, permute=permute)
        if m == "M-DI":
            fields = ["timestamp", "description", "arch", "disc_numbers"]
            ops = [_sl({"op": "di_init"}, slot)]
            if permute:
                fields = list(fields)
                rng.shuffle(fields)
            for f in fields:
                if f == "disc_numbers" and rng.random() < 0.4:
                    ops.append(_sl({"op": "di_inplace", "clear": True, "append": list(K[f])}, slot))
                else:
                    ops.append(_sl({"op": "di_set", "field": f, "value": K[f]}, slot))
            return ops
        ops = [_sl({"op": "mf_init", "compose": dict(K["compose"])}, slot)]
        adds = [dict(a) for a in K["adds"]]
        if permute:
            adds = self._permute_adds(adds, rng)
        for a in adds:
            if m == "M-XF" and permute and isinstance(a.get("checksums"), dict) and len(a["checksums"]) > 1:
                a["ck_order"] = rng.randrange(1 << 30)
            ops.append(_sl(a, slot))
        return ops

    def _permute_adds(self, adds, rng):
        """Permute what is unordered: for rpms everything; for modules / extra files the adds that address
        DIFFERENT list-valued entries may be interleaved, adds to the same entry keep their order (a module's
        RPM list and the extra-file list of a cell are caller-ordered content)."""
        if self.machine == "M-RP":
            # later adds of the same (variant, arch, srpm, nevra) overwrite: keep relative order per key
            key = lambda a: (a["variant"], a["arch"], a["nevra"].split("/")[-1].replace(".rpm", ""))
        elif self.machine == "M-MO":
            key = lambda a: (a["variant"], a["arch"], a["uid"])
        else:
            key = lambda a: (a["variant"], a["arch"])
        groups = {}
        for a in adds:
            groups.setdefault(key(a), []).append(a)
        slots = []
        for k, g in groups.items():
            slots.extend([k] * len(g))
        rng.shuffle(slots)
        out = []
        for k in slots:
            out.append(groups[k].pop(0))
        return out

    def dump_op(self, K, rng, slot=0, main_variant=None):
        o = {"op": "dump", "path": self.path}
        if self.machine == "M-TI":
            keys = gen_ti.top_keys(K)
            if main_variant == "random" and keys and rng.random() < 0.5:
                o["main_variant"] = pick(rng, keys)
        if rng.random() < 0.15:
            o["to"] = "handle"
        return _sl(o, slot)

    # -- valid mutation -----------------------------------------------------------------
    def mutation(self, K, rng, slot=0):
        m = self.machine
        if rng.random() < 0.15:
            sh = self.shrink(K, rng, slot)
            if sh is not None:
                return sh
        if m == "M-CI":
            return gen_ci.valid_mutation(K, rng, slot)
        if m == "M-IM":
            return gen_im.valid_mutation(K, rng, slot)
        if m == "M-TI":
            return gen_ti.valid_mutation(K, rng, slot)
        if m == "M-DI":
            K2 = gen_ti.gen_discinfo(rng)
            if rng.random() < 0.3:
                return _sl({"op": "di_inplace", "clear": True, "append": sorted(subset(rng, [1, 2, 3, 5, 8], 1, 3))}, slot)
            f = pick(rng, ["timestamp", "description", "arch", "disc_numbers"])
            return _sl({"op": "di_set", "field": f, "value": K2[f]}, slot)
        r = rng.random()
        if r < 0.15:
            # the milestone label is taken back / given: label AND final leave / enter the document together
            return _sl({"op": "mf_set", "field": "label", "value": None if K["compose"].get("label") else pick(rng, ["RC-1.0", "Beta-2.3"])}, slot)
        if r < 0.5:
            return _sl({"op": "mf_set", "field": "respin", "value": rng.randint(3, 9)}, slot)
        variants = sorted(set(a["variant"] for a in K["adds"])) or ["Server"]
        arches = sorted(set(a["arch"] for a in K["adds"])) or ["x86_64"]
        if m == "M-RP":
            return _sl(gen_mf.rpm_add(rng, variants, arches, 0, []), slot)
        if m == "M-MO":
            return _sl(gen_mf.module_add(rng, variants, arches, 0), slot)
        return _sl(gen_mf.extra_add(rng, variants, arches, 0), slot)

    def shrink(self, K, rng, slot=0):
        """a valid change that makes the serialised form SHORTER (a later dump over the same path must not leave a tail)"""
        m = self.machine
        if m == "M-CI":
            return _sl({"op": "ci_set", "sec": "release", "field": "name", "value": "x"}, slot)
        if m == "M-IM" and K["cells"]:
            v, a, i = pick(rng, K["cells"])
            return _sl({"op": "img_remove", "variant": v, "arch": a, "iid": i}, slot)
        if m == "M-TI":
            if K["images"] and rng.random() < 0.5:
                return _sl({"op": "ti_image_del", "platform": pick(rng, sorted(K["images"]))}, slot)
            return _sl({"op": "ti_set", "sec": "release", "field": "name", "value": "x"}, slot)
        if m == "M-DI":
            return _sl({"op": "di_set", "field": "description", "value": "x"}, slot)
        if m in ("M-RP", "M-MO", "M-XF") and K["adds"]:
            return _sl({"op": "mf_del_variant", "variant": pick(rng, K["adds"])["variant"]}, slot)
        return None

    # -- poison table ------------------------------------------------------------------------
    def sites(self, K):
        m = self.machine
        if m == "M-CI":
            return gen_ci.poison_sites(K)
        if m == "M-IM":
            return gen_im.poison_sites(K)
        if m == "M-TI":
            return gen_ti.poison_sites(K)
        if m == "M-DI":
            return gen_ti.di_poison_sites(K)
        return [{"kind": "compose", "field": f, "bad": b, "good": K["compose"][f]} for f, bads in gen_im.COMPOSE_POISON for b in pools.with_generic(bads)]

    def poison(self, site, slot=0):
        m = self.machine
        if m == "M-CI":
            return gen_ci.poison_ops(site, slot)
        if m == "M-IM":
            return gen_im.poison_ops(site, slot)
        if m == "M-TI":
            return gen_ti.poison_ops(site, slot)
        if m == "M-DI":
            return (_sl({"op": "di_set", "field": site["field"], "value": site["bad"]}, slot),
                    _sl({"op": "di_set", "field": site["field"], "value": site["good"]}, slot))
        return (_sl({"op": "mf_set", "field": site["field"], "value": site["bad"]}, slot),
                _sl({"op": "mf_set", "field": site["field"], "value": site["good"]}, slot))

    def bystander(self, rng, tier="quick", slot=7):
        """A SECOND object of the same format with DIFFERENT content, alive in the same process while the history of the
        main object runs (state must not leak between objects: shared mutable defaults, class-level caches...).
        Returns (build ops to interleave, final ops that persist and restart it against its own model)."""
        K2 = self.content(rng, tier)
        build = self.build(K2, rng, slot=slot)
        p2 = self.path + ".bystander"
        final = [_sl({"op": "dump", "path": p2}, slot), _sl({"op": "restart", "path": p2, "via": pick(rng, ["path", "handle", "loads"]), "offset": rng.randint(0, 200)}, slot)]
        return build, final

    def disturbance(self, K, rng, slot=0):
        """ops that a round-trip history may contain between a dump and the next restart / dump"""
        r = rng.random()
        if r < 0.35:
            # unsaved changes are thrown away: restart WITHOUT a dump in between (the file is unchanged)
            return [self.mutation(K, rng, slot), _sl({"op": "restart", "path": self.path, "via": pick(rng, ["path", "handle", "loads"]), "offset": rng.randint(0, 300)}, slot)]
        if r < 0.6:
            # another writer clobbers the destination; the unchanged object is dumped over it again
            return [_sl({"op": "fs_clobber", "path": self.path, "how": pick(rng, ["garbage", "empty", "json", "longer"])}, slot),
                    self.dump_op(K, rng, slot), _sl({"op": "restart", "path": self.path, "via": "path"}, slot)]
        if r < 0.8:
            # the same file is read twice in a row (second reader must see the file, not the first reader's object)
            return [_sl({"op": "restart", "path": self.path, "via": "path"}, slot), self.mutation(K, rng, slot),
                    _sl({"op": "restart", "path": self.path, "via": pick(rng, ["path", "loads"])}, slot)]
        return [_sl({"op": "dumps"}, slot), self.mutation(K, rng, slot), _sl({"op": "dumps"}, slot)]

    def cfg(self, rng):
        return {"simset": pick(rng, ["insertion", "shuffle", "reverse", "sorted"])}


KITS = dict((m, Kit(m)) for m in FORMATS)
