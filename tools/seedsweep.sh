#!/bin/sh
# tools/seedsweep.sh FROM TO [tier] : run every claimed check under VERIF_SEED=FROM..TO; evidence/replays go to a scratch dir.
# Prints only the lines that need attention (rc != 0, VIOLATION, HARNESS-ERROR, foreign cutoffs).
cd "$(dirname "$0")/.."
FROM="${1:-1}"; TO="${2:-10}"; TIER="${3:-quick}"
SCR=$(mktemp -d)
export VERIF_EVIDENCE_DIR="$SCR/evidence" VERIF_REPLAY_DIR="$SCR/replays"
bad=0
for seed in $(seq "$FROM" "$TO"); do
  for p in $(jq -r '.checks[].property_id' MANIFEST.json); do
    out=$(VERIF_SEED=$seed bin/check "$p" --tier "$TIER" 2>&1); rc=$?
    last=$(echo "$out" | tail -1)
    if [ $rc -ne 0 ] || echo "$last" | grep -qv 'foreign={}'; then
      bad=$((bad+1))
      echo "seed=$seed $p rc=$rc"; echo "$out" | grep -E "^(VIOLATION|HARNESS-ERROR|violation)" | cut -c1-400; echo "$last" | cut -c1-500
      mkdir -p "$(dirname "$0")/../replays/sweep" 2>/dev/null; cp "$SCR"/replays/*.json replays/sweep/ 2>/dev/null
    fi
  done
  echo "seed $seed done (attention so far: $bad)"
done
rm -rf "$SCR"
echo "sweep $FROM..$TO tier=$TIER finished, $bad runs needed attention"
