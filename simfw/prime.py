"""Small VALID current-format documents, one per format, whose ids do not clash with generated content.  Used to give an
object a successful earlier load before it is handed a document it must refuse (a rejection must not depend on the
object being fresh)."""
import json

_COMPOSE = {"date": "20200101", "id": "Zz-1-20200101.0", "respin": 0, "type": "production"}


def _j(kind, payload):
    p = {"compose": dict(_COMPOSE)}
    p.update(payload)
    return json.dumps({"header": {"type": "productmd." + kind, "version": "1.2"}, "payload": p}, sort_keys=True, indent=4)


PRIME = {
    "composeinfo": _j("composeinfo", {
        "release": {"internal": False, "name": "Zz", "short": "Zz", "type": "ga", "version": "1"},
        "variants": {"Zzz": {"arches": ["x86_64"], "id": "Zzz", "name": "Zzz", "paths": {}, "type": "variant", "uid": "Zzz"}}}),
    "images": _j("images", {"images": {"Zzz": {"x86_64": [{
        "arch": "x86_64", "bootable": False, "checksums": {"md5": "0" * 32}, "disc_count": 1, "disc_number": 1,
        "format": "iso", "implant_md5": None, "mtime": 1, "path": "Zzz/zzz.iso", "size": 1, "subvariant": "Zzz",
        "type": "boot", "volume_id": None}]}}}),
    "rpms": _j("rpms", {"rpms": {"Zzz": {"x86_64": {"zzz-0:1-1.src": {"zzz-0:1-1.x86_64": {
        "category": "binary", "path": "Zzz/x86_64/os/Packages/z/zzz-1-1.x86_64.rpm", "sigkey": None}}}}}}),
    "modules": _j("modules", {"modules": {"Zzz": {"x86_64": {"zzz:1:20200101:c0ffee": {
        "metadata": {"uid": "zzz:1:20200101:c0ffee", "name": "zzz", "stream": "1", "version": "20200101", "context": "c0ffee", "koji_tag": "module-zzz"},
        "modulemd_path": {"binary": "Zzz/x86_64/os/repodata/zzz-modules.yaml.gz"}, "rpms": ["zzz-0:1-1.x86_64"]}}}}}),
    "extra_files": _j("extra_files", {"extra_files": {"Zzz": {"x86_64": [
        {"file": "Zzz/x86_64/os/ZZZ", "size": 1, "checksums": {"md5": "0" * 32}}]}}}),
    "treeinfo": ("[header]\ntype = productmd.treeinfo\nversion = 1.2\n\n[release]\nname = Zz\nshort = Zz\nversion = 1\n\n"
                 "[tree]\narch = x86_64\nbuild_timestamp = 5\nplatforms = x86_64\nvariants = Zzz\n\n"
                 "[variant-Zzz]\nid = Zzz\nname = Zzz\ntype = variant\nuid = Zzz\n\n"
                 "[general]\narch = x86_64\nfamily = Zz\nname = Zz 1\nplatforms = x86_64\ntimestamp = 5\nvariant = Zzz\nvariants = Zzz\nversion = 1\n"),
    "discinfo": "5.5\nZz 1\nx86_64\nALL",
}
