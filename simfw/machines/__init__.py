from . import ci  # noqa: F401
