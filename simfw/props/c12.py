"""C12 - manifest builders file each entry exactly where the arguments say.

Sequences of add calls with valid and invalid values of every parameter, compared step by step with a
reference model of the documented layout (independent NEVRA / module-UID parser); dump_for_tree with
base paths that are, are not, or only textually prefix the stored paths.
"""
from .. import gen_mf
from ..pools import pick

ID = "C12"
LEVEL = "exploration"
RUNS = {"quick": 6000, "thorough": 400000}
REQUIRED_FAULTS = ["F5.refused_api_call"]
MACHINES = ["M-RP", "M-MO", "M-XF"]


def generate(rng, tier, idx):
    machine = MACHINES[idx % 3]
    n = rng.randint(2, 14 if tier == "quick" else 40)
    ops = gen_mf.history(rng, machine, n, invalid=0.3, restarts=0.05)
    ops.append({"op": "dump", "path": gen_mf.FILES[machine]})
    return {"machine": machine, "cfg": {}, "ops": ops}
