"""M-CI: a node holding one productmd.composeinfo.ComposeInfo.

Model (slot.model), all JSON:
  release / base_product / compose : dicts of the documented fields (raw, as assigned)
  vars : {vid: {id, uid, name, type, arches[], paths{cat:{arch:val}}, release{}|None,
                parent: None(loose) | "top" | vid, children: [vid], tainted: bool}}
The forest is whatever is reachable from the "top" entries.
"""
import copy
import re

from ..core import register_machine, Violation
from ..seams import CTX, HarnessError
from ..util import cjson, h64, exc_class
from .. import pools
from .base import FormatMachine, Slot, VALID, INVALID, UNSPEC, first_diff, diff_key, dec

REL_FIELDS = ["name", "short", "version", "type", "is_layered", "internal"]
BP_FIELDS = ["name", "short", "version", "type"]
COMPOSE_FIELDS = ["id", "type", "date", "respin", "label", "final"]

VERSION_RE = re.compile(r"^([^0-9].*|([0-9]+(\.?[0-9]+)*))$")
LABEL_RE = re.compile(r"^(%s)-\d+\.\d+$" % "|".join(pools.LABEL_NAMES))
ID_RE = re.compile(r"^[a-zA-Z0-9]+$")


def _is_int(v):
    return isinstance(v, int) and not isinstance(v, bool)


# ---------------------------------------------------------------------------
# independent statement of the documented constraints (C06)
# ---------------------------------------------------------------------------
def release_validity(r, prefix, with_flags=True):
    if not isinstance(r.get("name"), str):
        return INVALID, prefix + ".name:type"
    v = r.get("version")
    if not isinstance(v, str):
        return INVALID, prefix + ".version:type"
    if "\n" in v:
        return UNSPEC, prefix + ".version:newline"
    if not VERSION_RE.match(v) or v.endswith("\n"):
        return INVALID, prefix + ".version:format"
    if not isinstance(r.get("short"), str):
        return INVALID, prefix + ".short:type"
    t = r.get("type")
    if not isinstance(t, str):
        return INVALID, prefix + ".type:type"
    if t not in pools.RELEASE_TYPES:
        return INVALID, prefix + ".type:enum"
    if with_flags:
        for f in ("is_layered", "internal"):
            if not isinstance(r.get(f), bool):
                return INVALID, prefix + ".%s:type" % f
    return VALID, ""


def compose_validity(c):
    i = c.get("id")
    if not isinstance(i, str):
        return INVALID, "compose.id:type"
    if not i:
        return INVALID, "compose.id:blank"
    if not re.match(r".*\d{8}(\.nightly|\.n|\.ci|\.test|\.t)?(\.\d+)?", i) or i.endswith("\n"):
        return INVALID, "compose.id:format"
    d = c.get("date")
    if not isinstance(d, str):
        return INVALID, "compose.date:type"
    if not re.match(r"^\d{8}$", d) or d.endswith("\n"):
        return (UNSPEC, "compose.date:newline") if d.endswith("\n") else (INVALID, "compose.date:format")
    if c.get("type") not in pools.COMPOSE_TYPES:
        return INVALID, "compose.type:enum"
    r = c.get("respin")
    if isinstance(r, bool):
        return UNSPEC, "compose.respin:bool"
    if not isinstance(r, int):
        return INVALID, "compose.respin:type"
    lab = c.get("label")
    if lab is not None and not isinstance(lab, str):
        return INVALID, "compose.label:type"
    if lab is not None and lab != "" and (not LABEL_RE.match(lab) or lab.endswith("\n")):
        return INVALID, "compose.label:format"
    if lab == "":
        return UNSPEC, "compose.label:empty"
    if lab and not isinstance(c.get("final"), bool):
        return INVALID, "compose.final:type"
    return VALID, ""


def variant_validity(model, vid, parent_vid):
    v = model["vars"][vid]
    pre = "variant"
    i = v.get("id")
    if not isinstance(i, str):
        return INVALID, pre + ".id:type"
    if not ID_RE.match(i) or i.endswith("\n"):
        return INVALID, pre + ".id:format"
    u = v.get("uid")
    if not isinstance(u, str):
        return UNSPEC, pre + ".uid:type"
    if parent_vid == "top":
        if u.replace("-", "") != i:
            return INVALID, pre + ".uid:misaligned"
    else:
        p = model["vars"][parent_vid]
        if not isinstance(p.get("uid"), str):
            return UNSPEC, pre + ".parent-uid"
        if u != "%s-%s" % (p["uid"], i):
            return INVALID, pre + ".uid:misaligned"
    n = v.get("name")
    if not isinstance(n, str):
        return INVALID, pre + ".name:type"
    if not n:
        return INVALID, pre + ".name:blank"
    if v.get("type") not in pools.CI_VARIANT_TYPES:
        return INVALID, pre + ".type:enum"
    a = v.get("arches")
    if not isinstance(a, list):
        return UNSPEC, pre + ".arches:type"
    if not a:
        return INVALID, pre + ".arches:blank"
    if any(not isinstance(x, str) for x in a):
        return UNSPEC, pre + ".arches:elem"
    if parent_vid != "top":
        pa = model["vars"][parent_vid].get("arches")
        if not isinstance(pa, list):
            return UNSPEC, pre + ".parent-arches"
        if any(x not in pa for x in a):
            return INVALID, pre + ".arches:not-in-parent"
    if v.get("type") == "layered-product":
        r = dict(v.get("release") or {})
        r["is_layered"] = True      # the writer forces it
        vv, why = release_validity(r, pre + ".release")
        if vv != VALID:
            return vv, why
    return VALID, ""


def forest_vids(model):
    """[(vid, parent)] in deterministic pre-order from the top."""
    out = []

    def walk(vid, parent):
        out.append((vid, parent))
        for c in model["vars"][vid]["children"]:
            walk(c, vid)
    for t in model["top"]:
        walk(t, "top")
    return out


def forest_validity(model):
    if model.get("broken"):
        return INVALID, "forest:breaking-add-accepted/" + model["broken"][0][2]
    worst = (VALID, "")
    uids = {}
    order = forest_vids(model)
    seen = set()
    for vid, parent in order:
        if vid in seen:
            return UNSPEC, "variant-twice-in-forest"
        seen.add(vid)
    for vid, parent in order:
        vv, why = variant_validity(model, vid, parent)
        if vv == INVALID:
            return vv, why
        if vv == UNSPEC:
            worst = (vv, why)
        v = model["vars"][vid]
        # sibling keys must match ids
        if v.get("key") is not None and v["key"] != v.get("id") and v["key"] != v.get("uid"):
            return INVALID, "variant.key:mismatch"
        u = v.get("uid")
        if isinstance(u, str):
            if u in uids:
                # UIDs are unique in a forest; the writer is anchored to refuse a UID it has already emitted
                return INVALID, "forest:duplicate-uid"
            uids[u] = vid
    return worst


def ci_validity(model):
    worst = (VALID, "")
    checks = [compose_validity(model["compose"]), release_validity(model["release"], "release")]
    if model["release"].get("is_layered") is True:
        checks.append(release_validity(model["base_product"], "base_product", with_flags=False))
    checks.append(forest_validity(model))
    for vv, why in checks:
        if vv == INVALID:
            return vv, why
        if vv == UNSPEC:
            worst = (vv, why)
    return worst


# ---------------------------------------------------------------------------
def norm_release(r):
    t = r["type"]
    return {"name": r["name"], "short": r["short"], "version": r["version"],
            "type": t.lower() if isinstance(t, str) else t,
            "is_layered": bool(r["is_layered"]), "internal": bool(r["internal"])}


def norm_paths(v):
    out = {}
    for cat, table in v["paths"].items():
        for arch, val in table.items():
            if arch in v["arches"] and val:
                out.setdefault(cat, {})[arch] = val
    return out


def expected_from_model(model):
    exp = {"release": norm_release(model["release"])}
    exp["base_product"] = None
    if model["release"]["is_layered"]:
        b = model["base_product"]
        exp["base_product"] = {"name": b["name"], "short": b["short"], "version": b["version"], "type": b["type"]}
    c = model["compose"]
    label = c["label"] or None
    exp["compose"] = {"id": c["id"], "type": c["type"], "date": c["date"], "respin": c["respin"], "label": label,
                      "final": bool(c["final"]) if label else False}
    forest = {}
    for vid, parent in forest_vids(model):
        v = model["vars"][vid]
        rel = None
        if v["type"] == "layered-product":
            rel = norm_release(dict(v["release"], is_layered=True))
        forest[v["uid"]] = {"id": v["id"], "uid": v["uid"], "name": v["name"], "type": v["type"],
                            "arches": sorted(v["arches"]), "paths": norm_paths(v),
                            "parent": None if parent == "top" else model["vars"][parent]["uid"],
                            "children": sorted(model["vars"][c]["uid"] for c in v["children"]),
                            "release": rel,
                            # the key under which its container holds it: the id (what add() files it under, and what a
                            # lookup "from its parent by its id" relies on - for the top container as well)
                            "key": v["id"]}
    exp["forest"] = forest
    return exp


def observe_release(r):
    return dict((f, getattr(r, f)) for f in REL_FIELDS)


def observe_ci(obj):
    out = {"release": observe_release(obj.release)}
    out["base_product"] = None
    if obj.release.is_layered:
        out["base_product"] = dict((f, getattr(obj.base_product, f)) for f in BP_FIELDS)
    out["compose"] = dict((f, getattr(obj.compose, f)) for f in COMPOSE_FIELDS)
    forest = {}

    def walk(container, parent_uid):
        for key in sorted(container.variants):
            v = container.variants[key]
            paths = {}
            for cat in pools.CI_PATH_CATS:
                t = getattr(v.paths, cat)
                if t:
                    paths[cat] = dict(t)
            rel = observe_release(v.release) if v.type == "layered-product" else None
            if v.uid in forest:
                forest[v.uid + "#dup"] = {"uid": v.uid}
                continue
            forest[v.uid] = {"id": v.id, "uid": v.uid, "name": v.name, "type": v.type,
                             "arches": sorted(v.arches), "paths": paths, "parent": parent_uid,
                             "children": sorted(c.uid for c in v.variants.values()), "release": rel, "key": key}
            walk(v, v.uid)
    walk(obj.variants, None)
    out["forest"] = forest
    return out


@register_machine("M-CI")
class CIMachine(FormatMachine):
    FORMAT = "composeinfo"
    ROUNDTRIP_PROP = "C01"
    KIND = "json"
    FILE = "composeinfo.json"
    HEADER_TYPE = "productmd.composeinfo"

    def mods(self):
        import productmd.composeinfo as m
        return m

    def new_obj(self):
        return self.mods().ComposeInfo()

    def prop_for_invalid(self, why):
        # C11: "UIDs are unique" - in a C11 run a forest with a duplicate UID that gets written is reported there
        if why.startswith("forest:duplicate-uid") and self.cfg.get("focus") == "C11":
            return "C11"
        return "C06"

    def observe(self, obj):
        return observe_ci(obj)

    def validity(self, s):
        return ci_validity(s.model)

    def expected_loaded(self, s):
        return expected_from_model(s.model)

    def abstract(self, s):
        m = s.model
        f = forest_vids(m)
        return [m["release"].get("type"), bool(m["release"].get("is_layered")), m["compose"].get("type"),
                bool(m["compose"].get("label")), len(f),
                sorted((m["vars"][v]["type"], len(m["vars"][v]["arches"]) if isinstance(m["vars"][v]["arches"], list) else -1,
                        len(m["vars"][v]["paths"]), p != "top") for v, p in f)]

    def abstract_expected(self, e):
        return [e["release"]["type"], e["release"]["is_layered"], e["compose"]["type"], bool(e["compose"]["label"]),
                sorted((v["type"], len(v["arches"]), len(v["paths"]), v["parent"] is not None, len(v["children"]))
                       for v in e["forest"].values())]

    # ---- ops: construction ---------------------------------------------------------
    def op_ci_init(self, op):
        k = op.get("slot", 0)
        s = Slot()
        s.obj = self.new_obj()
        s.model = {"release": {}, "base_product": {}, "compose": {}, "vars": {}, "top": []}
        for f in REL_FIELDS:
            s.model["release"][f] = getattr(s.obj.release, f)
        for f in BP_FIELDS:
            s.model["base_product"][f] = getattr(s.obj.base_product, f)
        for f in COMPOSE_FIELDS:
            s.model["compose"][f] = getattr(s.obj.compose, f)
        self.slots[k] = s
        for sec in ("release", "base_product", "compose"):
            for f, v in (op.get(sec) or {}).items():
                setattr(getattr(s.obj, sec), f, v)
                s.model[sec][f] = v
        return "ok"

    def op_ci_set(self, op):
        s = self.slot(op)
        if s is None:
            return "noop"
        sec, f, v = op["sec"], op["field"], dec(op["value"])
        setattr(getattr(s.obj, sec), f, v)
        s.model[sec][f] = v
        return "ok"

    def op_var_new(self, op):
        s = self.slot(op)
        if s is None:
            return "noop"
        vid = str(op["vid"])
        v = self.mods().Variant(s.obj)
        v.id, v.uid, v.name, v.type = op["id"], op["uid"], op["name"], op["type"]
        from ..seams import make_set as SimSet
        if op.get("arches_inplace") and hasattr(v.arches, "add"):
            for a in op["arches"]:
                v.arches.add(a)           # the variant's own default set, filled in place
            CTX.probe("ci.arches_filled_in_place_on_default_set")
        else:
            v.arches = SimSet(op["arches"])
        rel = None
        if op.get("release"):
            rel = dict(op["release"])
            for f in REL_FIELDS:
                if f in rel:
                    setattr(v.release, f, rel[f])
            for f in REL_FIELDS:
                rel.setdefault(f, getattr(v.release, f))
        else:
            rel = observe_release(v.release)
        s.pool[vid] = v
        s.model["vars"][vid] = {"id": op["id"], "uid": op["uid"], "name": op["name"], "type": op["type"],
                                "arches": list(op["arches"]), "paths": {}, "release": rel, "parent": None,
                                "children": [], "tainted": False, "key": None}
        return "ok"

    def op_var_set(self, op):
        s = self.slot(op)
        vid = str(op.get("var"))
        if s is None or vid not in s.pool:
            return "noop"
        f, val = op["field"], dec(op["value"])
        v = s.pool[vid]
        mv = s.model["vars"][vid]
        if f == "arches":
            from ..seams import make_set as SimSet
            v.arches = SimSet(val) if isinstance(val, list) else val
            mv["arches"] = list(val) if isinstance(val, list) else val
        elif f.startswith("release."):
            setattr(v.release, f[8:], val)
            mv["release"][f[8:]] = val
        else:
            setattr(v, f, val)
            mv[f] = val
        return "ok"

    def op_var_set_many(self, op):
        """several fields of one variant assigned together (a rename: id and uid change in step)"""
        r = "noop"
        for f, val in sorted(op["fields"].items()):
            r = self.op_var_set({"op": "var_set", "var": op["var"], "field": f, "value": val, "slot": op.get("slot", 0)})
        return r

    def op_var_arches_inplace(self, op):
        """mutate the arch SET in place (no attribute assignment)"""
        s = self.slot(op)
        vid = str(op.get("var"))
        if s is None or vid not in s.pool:
            return "noop"
        v, mv = s.pool[vid], s.model["vars"][vid]
        if not isinstance(mv.get("arches"), list) or not hasattr(v.arches, "add"):
            return "noop"
        how = op["how"]
        if how == "add":
            v.arches.add(op["value"])
            if op["value"] not in mv["arches"]:
                mv["arches"].append(op["value"])
        elif how == "discard":
            v.arches.discard(op["value"])
            if op["value"] in mv["arches"]:
                mv["arches"].remove(op["value"])
        else:
            v.arches.clear()
            mv["arches"] = []
        return "ok"

    def op_var_path(self, op):
        s = self.slot(op)
        vid = str(op.get("var"))
        if s is None or vid not in s.pool:
            return "noop"
        getattr(s.pool[vid].paths, op["cat"])[op["arch"]] = op["value"]
        s.model["vars"][vid]["paths"].setdefault(op["cat"], {})[op["arch"]] = op["value"]
        return "ok"

    def op_var_path_table(self, op):
        """a whole path table assigned in one go (v.paths.os_tree = {...}, the style the class docstring shows)"""
        s = self.slot(op)
        vid = str(op.get("var"))
        if s is None or vid not in s.pool:
            return "noop"
        setattr(s.pool[vid].paths, op["cat"], dict(op["table"]))
        s.model["vars"][vid]["paths"][op["cat"]] = dict(op["table"])
        return "ok"

    # ---- C11: add ---------------------------------------------------------------------
    def _in_forest(self, model, vid):
        return any(v == vid for v, _ in forest_vids(model))

    def _ancestors(self, model, vid):
        """vid and all its ancestors (by model parent links)."""
        out = []
        cur = vid
        guard = 0
        while cur not in (None, "top") and guard < 50:
            out.append(cur)
            cur = model["vars"][cur]["parent"]
            guard += 1
        return out

    def _subtree_valid(self, model, vid, parent):
        """validity of `vid` as a child of `parent`, and recursively of the children it brings."""
        vv, why = variant_validity(model, vid, parent)
        if vv != VALID:
            return vv, why
        worst = (VALID, "")
        for c in model["vars"][vid]["children"]:
            # children are only checked for key consistency by the library at add time; a deeper
            # invalidity is unspecified at add time (found at dump time)
            cv, cw = variant_validity(model, c, vid)
            if cv != VALID:
                worst = (UNSPEC, "child-" + cw)
        return worst

    def walk_snapshot(self, s):
        """Everything a caller can see of the forest: keys, identities (as pool ids), parent pointers."""
        ident = dict((id(v), k) for k, v in s.pool.items())
        out = []

        def walk(container, depth):
            for key in sorted(container.variants):
                v = container.variants[key]
                par = v.parent
                out.append([depth, key, ident.get(id(v), "?"), v.id, v.uid, sorted(v.arches) if v.arches is not None else None,
                            None if par is None else ident.get(id(par), "foreign")])
                if depth < 8:
                    walk(v, depth + 1)
        walk(s.obj.variants, 0)
        return out

    def op_var_add(self, op):
        s = self.slot(op)
        vid = str(op.get("var"))
        into = op.get("into", "top")
        into = "top" if into == "top" else str(into)
        if s is None or vid not in s.pool or (into != "top" and into not in s.pool):
            return "noop"
        model = s.model
        mv = model["vars"][vid]
        v = s.pool[vid]
        container = s.obj.variants if into == "top" else s.pool[into]
        # ---- what the property demands --------------------------------------
        expect, why = None, ""
        if s.tainted or mv["tainted"] or (into != "top" and model["vars"][into]["tainted"]):
            expect, why = UNSPEC, "tainted"
        elif into != "top" and vid in self._ancestors(model, into):
            expect, why = "fail", "own-ancestor"
        elif mv["parent"] is not None:
            # already filed somewhere
            if mv["parent"] == into:
                expect, why = UNSPEC, "re-add-same-container"
            else:
                # offered to a second container: its UID is aligned with the container it lives in, so (but for degenerate
                # cases) it cannot be aligned with this one - a misaligned-UID add, to be refused like any other
                vv, w = variant_validity(model, vid, into)
                if vv == INVALID and w.endswith("uid:misaligned"):
                    expect, why = "fail", "placed-elsewhere-uid-misaligned"
                else:
                    expect, why = UNSPEC, "already-in-another-container"
        else:
            vv, w = self._subtree_valid(model, vid, into)
            if vv == INVALID:
                expect, why = "fail", w
            elif vv == UNSPEC:
                expect, why = UNSPEC, w
            else:
                sibs = model["top"] if into == "top" else model["vars"][into]["children"]
                if any(model["vars"][c]["key"] == mv["id"] for c in sibs):
                    expect, why = "fail", "duplicate-id"
                else:
                    expect, why = "ok", ""
        target_in_forest = into == "top" or self._in_forest(model, into)
        before = self.walk_snapshot(s)
        before_obs = None
        try:
            container.add(v)
            raised = None
        except Exception as e:
            if isinstance(e, HarnessError):
                raise
            raised = e
        after = self.walk_snapshot(s)
        if raised is not None:
            CTX.fault("F5.refused_api_call")
            self.count("C11", ["add-refused", why, len(before)])
            if expect == "ok":
                # C06's converse ("every object whose fields all satisfy their documented rules is written without
                # error") cannot hold for an object that cannot even be assembled: in a C06 run it is reported there
                P = "C06" if self.cfg.get("focus") == "C06" else "C11"
                raise Violation(P, "%s.valid_add_accepted" % P, "valid-add-refused/%s" % exc_class(raised),
                                {"error": exc_class(raised), "msg": str(raised)[:160]})
            if expect == "fail" and not isinstance(raised, (ValueError, TypeError)):
                raise Violation("C11", "C11.refusal_exception_type", "exctype/%s/%s" % (why, exc_class(raised)),
                                {"error": exc_class(raised), "why": why})
            if after != before and self.watching("C11"):
                d = first_diff(before, after)
                raise Violation("C11", "C11.refused_add_changes_nothing", "refused-add-changed-forest/%s" % (why or "unspec"),
                                {"why": why, "diff": d, "error": exc_class(raised)})
            if after != before:
                # another property's run: the model keeps saying "nothing changed" - if something did, the run's own
                # oracle (what gets written and read back) will say so
                CTX.probe("foreign.refused_add_changed_forest")
            if mv["parent"] is None:
                mv["tainted"] = True      # a loose object may carry leftovers of the refused call: unspecified
            if why == "own-ancestor":
                CTX.probe("c11.cycle_refused")
            return "refused:" + exc_class(raised)
        # accepted
        if expect == "fail":
            if self.watching("C11"):
                raise Violation("C11", "C11.breaking_add_refused", "breaking-add-accepted/%s" % why, {"why": why})
            # another property's run: the forest now holds what the rules forbid - the model says so and the run's own
            # oracle judges what happens to it (e.g. C06: it must not be written)
            model.setdefault("broken", []).append([vid, into, why])
            CTX.probe("foreign.breaking_add_accepted")
            return "accepted-breaking"
        if expect == UNSPEC:
            # unspecified territory: stop trusting the model for this slot
            s.tainted = True
            CTX.probe("c11.unspecified_add." + why)
            return "accepted-unspec"
        mv["parent"] = into
        mv["key"] = mv["id"]
        (model["top"] if into == "top" else model["vars"][into]["children"]).append(vid)
        self.count("C11", ["add-ok", into == "top", len(before), mv["type"]])
        if target_in_forest:
            self.check_forest(s)
        return "ok"

    # ---- C11 invariants ------------------------------------------------------------------
    def check_forest(self, s):
        """(a) structure, (b) findability - evaluated by walking the live forest from the top
        through public attributes only."""
        if s.tainted or not self.watching("C11"):
            return
        model = s.model
        vv, _ = forest_validity(model)
        if vv != VALID:
            return
        obj = s.obj
        want = {}
        for vid, parent in forest_vids(model):
            mv = model["vars"][vid]
            want[mv["uid"]] = (vid, parent)
        seen = {}

        def walk(container, parent_obj):
            for key in sorted(container.variants):
                v = container.variants[key]
                if v.uid in seen:
                    raise Violation("C11", "C11.uids_unique", "duplicate-uid-in-forest", {"uid": v.uid})
                seen[v.uid] = v
                if parent_obj is None:
                    # "...and from its parent by its id": for a top-level variant the parent is the top container
                    try:
                        got = obj[v.id]
                    except Exception as e:
                        raise Violation("C11", "C11.find_by_id_from_parent", "toplevel-lookup-by-id-raises/%s" % exc_class(e), {"uid": v.uid, "id": v.id})
                    if got is not v:
                        raise Violation("C11", "C11.find_by_id_from_parent", "toplevel-lookup-by-id-wrong-object", {"uid": v.uid, "id": v.id})
                    if v.parent is not None:
                        raise Violation("C11", "C11.parent_pointer", "top-level-has-parent", {"uid": v.uid})
                    if v.uid.replace("-", "") != v.id:
                        raise Violation("C11", "C11.uid_alignment", "top-uid-misaligned", {"uid": v.uid, "id": v.id})
                else:
                    if v.parent is not parent_obj:
                        raise Violation("C11", "C11.parent_pointer", "child-parent-pointer-wrong", {"uid": v.uid})
                    if v.uid != "%s-%s" % (parent_obj.uid, v.id):
                        raise Violation("C11", "C11.uid_alignment", "child-uid-misaligned", {"uid": v.uid, "id": v.id})
                    if not set(v.arches) <= set(parent_obj.arches):
                        raise Violation("C11", "C11.child_arches_subset", "child-arch-outside-parent",
                                        {"uid": v.uid, "arches": sorted(v.arches), "parent": sorted(parent_obj.arches)})
                    try:
                        got = parent_obj[v.id]
                    except Exception as e:
                        raise Violation("C11", "C11.find_by_id_from_parent", "lookup-by-id-raises/%s" % exc_class(e), {"uid": v.uid})
                    if got is not v:
                        raise Violation("C11", "C11.find_by_id_from_parent", "lookup-by-id-wrong-object", {"uid": v.uid})
                walk(v, v)
        walk(obj.variants, None)
        if set(seen) != set(want):
            raise Violation("C11", "C11.forest_equals_model", "forest-membership-differs",
                            {"missing": sorted(set(want) - set(seen)), "extra": sorted(set(seen) - set(want))})
        for uid, v in sorted(seen.items()):
            vid, parent = want[uid]
            if s.pool.get(vid) is not v:
                raise Violation("C11", "C11.forest_equals_model", "forest-identity-differs", {"uid": uid})
            try:
                got = obj[uid]
            except Exception as e:
                raise Violation("C11", "C11.find_by_uid_from_top", "lookup-by-uid-raises/%s" % exc_class(e),
                                {"uid": uid, "depth": uid.count("-")})
            if got is not v:
                # known finding: with one id repeated down a chain (A > A-A > A-A-A) the relative tail "A-A" handed to the
                # nested lookup equals a sibling's full UID and the UID scan returns that sibling
                chain_ids = []
                cur = v
                while cur is not None:
                    chain_ids.append(cur.id)
                    cur = cur.parent
                repeated = len(chain_ids) >= 3 and len(set(chain_ids)) < len(chain_ids)
                self.soft(Violation("C11", "C11.find_by_uid_from_top",
                                    "lookup-by-uid-wrong-object" + ("/id-repeated-down-a-chain" if repeated else ""), {"uid": uid}))
            if "-" in uid and parent == "top":
                CTX.probe("c11.dashed_toplevel_lookup")
        self.count("C11", ["forest", sorted((u.count("-"), len(v.variants)) for u, v in seen.items())])

    def op_forest_check(self, op):
        s = self.slot(op)
        if s is None or s.obj is None:
            return "noop"
        self.check_forest(s)
        return "ok"

    def op_get_variants(self, op):
        s = self.slot(op)
        if s is None or s.obj is None or s.tainted:
            return "noop"
        model = s.model
        if forest_validity(model)[0] != VALID:
            return "noop-invalid"
        at = op.get("at", "top")
        at = "top" if at == "top" else str(at)
        if at != "top" and (at not in s.pool or not self._in_forest(model, at)):
            return "noop"
        container = s.obj if at == "top" else s.pool[at]
        arch, types, rec = op.get("arch"), op.get("types"), bool(op.get("recursive"))
        kw = {}
        if arch is not None:
            kw["arch"] = arch
        if types is not None:
            kw["types"] = list(types)
        if rec:
            kw["recursive"] = True
        try:
            res = container.get_variants(**kw)
        except Exception as e:
            if isinstance(e, HarnessError):
                raise
            raise Violation("C11", "C11.get_variants_returns", "get_variants-raises/%s" % exc_class(e),
                            {"error": exc_class(e), "msg": str(e)[:160], "kw": kw})
        uids = [v.uid for v in res]
        key = {"arch": "src" if arch == "src" else ("none" if arch is None else "bin"), "types": bool(types), "rec": rec}
        self.count("C11", ["getv", key, len(uids), at == "top"])
        if len(set(id(v) for v in res)) != len(res):
            raise Violation("C11", "C11.get_variants_no_duplicates", "duplicates", {"uids": uids, "kw": kw})
        if uids != sorted(uids):
            raise Violation("C11", "C11.get_variants_sorted", "not-sorted-by-uid", {"uids": uids, "kw": kw})
        # the reachable population from the model
        level = model["top"] if at == "top" else model["vars"][at]["children"]

        def below(vids):
            out = []
            for c in vids:
                out.append(c)
                out.extend(below(model["vars"][c]["children"]))
            return out
        population = below(level) if rec else list(level)
        pop_objs = dict((id(s.pool[c]), c) for c in population)
        include_self = bool(types) and "self" in types and at != "top"
        for v in res:
            if include_self and v is container:
                continue        # the pseudo-type 'self': the variant asked is part of the answer (nothing more is specified for it)
            if id(v) not in pop_objs:
                raise Violation("C11", "C11.get_variants_population", "returned-foreign-variant", {"uid": v.uid, "kw": kw})
            mv = model["vars"][pop_objs[id(v)]]
            if arch and arch != "src" and arch not in mv["arches"]:
                CTX.probe("c11.getv_arch_filter_violated")
                raise Violation("C11", "C11.get_variants_arch", "returned-variant-lacks-arch/%s" % ("recursive" if rec else "level"),
                                {"uid": v.uid, "arch": arch, "arches": mv["arches"], "kw": kw})
            if types and mv["type"] not in types:
                raise Violation("C11", "C11.get_variants_type", "returned-variant-wrong-type", {"uid": v.uid, "kw": kw})
        if not types and (arch is None or arch == "src"):
            want = sorted(model["vars"][c]["uid"] for c in population)
            if uids != want:
                raise Violation("C11", "C11.get_variants_complete_without_filter",
                                "unfiltered-result-incomplete/%s" % ("recursive" if rec else "level"),
                                {"got": uids, "want": want, "kw": kw})
        if arch and arch != "src" and rec and any(arch not in model["vars"][c]["arches"] for c in population):
            CTX.probe("c11.getv_recursive_arch_filtered_something")
        return "getv:%d" % len(res)

    def prop_for_diff(self, diff):
        # C11 (e): "the same forests after a write/read cycle" - in a C11 run a forest difference is reported there
        if diff.startswith("/forest") and self.cfg.get("focus") == "C11":
            return "C11"
        return "C01"

    # ---- restart support ---------------------------------------------------------------------
    def op_dump(self, op):
        s = self.slot(op)
        r = FormatMachine.op_dump(self, op)
        if r == "ok":
            path = self.path(op)
            self.durable[path]["aux"] = dict((s.model["vars"][vid]["uid"], vid) for vid, _ in forest_vids(s.model))
            self.durable[path]["base"] = copy.deepcopy(s.model)
            if any(p != "top" for _, p in forest_vids(s.model)):
                CTX.probe("ci.child_variant_serialised")
        return r

    def op_ci_rewrite_type_case(self, op):
        """A foreign writer stored the release type(s) in another letter case; the documented case-fold applies on load.
        The facts are unchanged, so the restart oracle stays (only the byte-identical re-dump is off: the library
        writes lower case)."""
        import json
        path = self.path(op)
        d = self.durable.get(path)
        if d is None or not d["clean"] or d["expected"] is None or d.get("legacy"):
            return "noop"
        doc = json.loads(self.fs.get(path).decode("utf-8"))
        how = op.get("how", "upper")
        f = (lambda t: t.upper()) if how == "upper" else (lambda t: t.title())
        doc["payload"]["release"]["type"] = f(doc["payload"]["release"]["type"])
        for v in doc["payload"]["variants"].values():
            if "release" in v:
                v["release"]["type"] = f(v["release"]["type"])
        self.fs.put(path, json.dumps(doc, indent=4, sort_keys=True, separators=(",", ": ")))
        d["bytes"] = self.fs.get(path)
        d["lossy"] = True
        CTX.probe("c01.release_type_case_folded_on_load")
        return "rewritten"

    def op_ci_downgrade(self, op):
        """F8: rewrite the stored composeinfo the way an older format version held it (doc/composeinfo-1.0.rst,
        -1.1.rst, property text): 1.1 = header type; 1.0 = no header type, no release/base_product 'type';
        0.3 = 'product' section, variants related only by UID prefix (no 'variants' lists), no 'internal';
        < 0.3 = additionally compose date/type/respin derivable only from the id."""
        import json
        path = self.path(op)
        d = self.durable.get(path)
        if d is None or not d["clean"] or d["expected"] is None or d.get("legacy"):
            return "noop"
        ver = op.get("version", "1.0")
        vt = tuple(int(x) for x in ver.split("."))
        doc = json.loads(self.fs.get(path).decode("utf-8"))
        exp = copy.deepcopy(d["expected"])
        p = doc["payload"]
        if vt >= (1, 1):
            doc["header"] = {"version": ver, "type": "productmd.composeinfo"}
        else:
            doc["header"] = {"version": ver}
        forest = exp["forest"]
        if vt < (1, 1):
            p["release"].pop("type", None)
            exp["release"]["type"] = "ga"
            if "base_product" in p:
                p["base_product"].pop("type", None)
                exp["base_product"]["type"] = "ga"
            for uid, v in p["variants"].items():
                if "release" in v:
                    v["release"].pop("type", None)
                    forest[uid]["release"]["type"] = "ga"
        if vt < (1, 0):
            depth = max([u.count("-") for u, v in forest.items() if v["parent"] is not None] + [0])
            if any(v["parent"] is not None and v["parent"].count("-") > 0 for v in forest.values()):
                return "noop-too-deep"        # legacy prefix derivation knows two levels only
            tops = set(u for u, v in forest.items() if v["parent"] is None)
            for u in tops:
                if "-" in u and u.rsplit("-", 1)[0] in forest:
                    return "noop-ambiguous-prefix"
            p["product"] = p.pop("release")
            p["product"].pop("internal", None)
            exp["release"]["internal"] = False
            for uid, v in p["variants"].items():
                v.pop("variants", None)
                if "release" in v:
                    v["product"] = v.pop("release")
                    v["product"].pop("internal", None)
                    forest[uid]["release"]["internal"] = False
        if vt < (0, 3):
            c = p["compose"]
            if c["respin"] >= 10 ** 7:
                return "noop-respin"
            import re as _re
            # such a document can only hold what its id says: content whose date / type / respin fields differ from the id
            # is not expressible in it
            _suffix = {"production": "", "ci": ".ci", "nightly": ".n", "test": ".t", "development": ".d"}
            _long = {"nightly": ".nightly", "test": ".test"}
            if not isinstance(c.get("id"), str) or not (c["id"].endswith("-%s%s.%d" % (c["date"], _suffix.get(c["type"], "?"), c["respin"])) or
                                                        c["id"].endswith("-%s%s.%d" % (c["date"], _long.get(c["type"], "?"), c["respin"]))):
                return "noop-fields-not-in-id"
            if _re.search(r"\d{8}", exp["release"]["version"] + (exp["base_product"] or {}).get("version", "")):
                # the id holds an earlier 8-digit run (a date-like version): the compose date is the LAST one
                CTX.probe("c05.composeinfo_id_with_two_date_like_runs")
            c.pop("date", None)
            c.pop("respin", None)
            c["type"] = "whatever"
            CTX.probe("c05.composeinfo_compose_from_id")
        self.fs.put(path, json.dumps(doc, indent=4, sort_keys=True, separators=(",", ": ")))
        self.durable[path] = {"expected": exp, "bytes": self.fs.get(path), "clean": True, "legacy": True, "legacy_version": ver,
                              "legacy_prop": op.get("tag", "C05"), "source": "downgrade", "kw": {}}
        return "downgraded:" + ver

    def model_from_expected(self, s, expected):
        path = self._last_restart_path
        d = self.durable[path]
        base = d.get("base")
        if base is None:
            return self._model_from_observation(expected)
        # normalise the model the way the file format does
        m = copy.deepcopy(base)
        m["release"] = dict(expected["release"])
        if expected["base_product"] is not None:
            m["base_product"] = dict(expected["base_product"])
        else:
            m["base_product"] = dict((f, None) for f in BP_FIELDS)
        m["compose"] = dict(expected["compose"])
        keep = set(d["aux"].values())
        self._loose = {}
        for vid in list(m["vars"]):
            if vid not in keep:
                # a variant object the caller still holds but that is not part of the durable forest: it is re-created
                # (same attributes, children dropped) against the restarted object, so the history can go on using it
                cur = s.model["vars"].get(vid) if s is not None and s.model else None
                if cur is not None and cur["parent"] is None and not cur["tainted"] and not cur["children"]:
                    self._loose[vid] = copy.deepcopy(cur)
                del m["vars"][vid]
        for vid, cur in self._loose.items():
            m["vars"][vid] = cur
        for uid, vid in d["aux"].items():
            e = expected["forest"][uid]
            mv = m["vars"][vid]
            mv["paths"] = copy.deepcopy(e["paths"])
            mv["arches"] = list(e["arches"])
            if e["release"] is not None:
                mv["release"] = dict(e["release"])
            else:
                mv["release"] = {"name": None, "short": None, "version": None, "type": None, "is_layered": True, "internal": False}
        return m

    def model_from_observation(self, obs):
        return self._model_from_observation(obs)

    def _model_from_observation(self, expected):
        m = {"release": dict(expected["release"]), "compose": dict(expected["compose"]), "vars": {}, "top": []}
        m["base_product"] = dict(expected["base_product"]) if expected["base_product"] else dict((f, None) for f in BP_FIELDS)
        uid2vid = {}
        for i, uid in enumerate(sorted(expected["forest"])):
            uid2vid[uid] = "L%d" % i
        for uid, e in expected["forest"].items():
            vid = uid2vid[uid]
            m["vars"][vid] = {"id": e["id"], "uid": uid, "name": e["name"], "type": e["type"], "arches": list(e["arches"]),
                              "paths": copy.deepcopy(e["paths"]),
                              "release": dict(e["release"]) if e["release"] else {"name": None, "short": None, "version": None, "type": None, "is_layered": True, "internal": False},
                              "parent": "top" if e["parent"] is None else uid2vid[e["parent"]],
                              "children": [uid2vid[c] for c in e["children"]], "tainted": False, "key": e["id"]}
            if e["parent"] is None:
                m["top"].append(vid)
        self._obs_aux = dict((uid, vid) for uid, vid in uid2vid.items())
        return m

    def op_restart(self, op):
        self._last_restart_path = self.path(op)
        s = self.slot(op)
        r = FormatMachine.op_restart(self, op)
        if r == "restarted":
            if any(v["parent"] is not None for v in self.durable[self._last_restart_path]["expected"]["forest"].values()):
                CTX.probe("ci.child_variant_restarted")
            # C11 (e): the reloaded forest satisfies the same invariants
            self.check_forest(s)
        return r

    def rebind(self, s):
        path = self._last_restart_path
        d = self.durable[path]
        aux = d.get("aux")
        if aux is None:
            aux = getattr(self, "_obs_aux", {})
        s.pool = {}
        if s.tainted:
            return
        for vid, cur in getattr(self, "_loose", {}).items():
            if d.get("aux") is None:
                break
            try:
                v = self.mods().Variant(s.obj)
                v.id, v.uid, v.name, v.type = cur["id"], cur["uid"], cur["name"], cur["type"]
                from ..seams import make_set
                v.arches = make_set(cur["arches"]) if isinstance(cur["arches"], list) else cur["arches"]
                for f, val in (cur.get("release") or {}).items():
                    setattr(v.release, f, val)
                for cat, table in cur["paths"].items():
                    getattr(v.paths, cat).update(table)
                s.pool[vid] = v
            except Exception:
                s.model["vars"].pop(vid, None)
        self._loose = {}
        # handles are re-bound by WALKING the reloaded forest (not through the lookup API, which is itself under test)
        found = {}

        def walk(container, depth):
            for v in container.variants.values():
                found.setdefault(v.uid, v)
                if depth < 8:
                    walk(v, depth + 1)
        walk(s.obj.variants, 0)
        for uid, vid in aux.items():
            if uid in found:
                s.pool[vid] = found[uid]
