#!/bin/sh
# replay every minimised replay of a FIXED defect against the current tree: none may reproduce.
# (files named known-* are known findings and are expected to reproduce)
cd "$(dirname "$0")/.."
bad=0
for f in regressions/*.json; do
  p=$(jq -r .property "$f")
  out=$(bin/check "$p" --replay "$f" 2>&1); rc=$?
  case "$(basename "$f")" in
    known-*) out=$(VERIF_NO_KNOWN=1 bin/check "$p" --replay "$f" 2>&1); rc=$?; [ $rc -eq 1 ] || { echo "known finding no longer reproduces: $f"; bad=1; } ;;
    *) [ $rc -eq 0 ] || { echo "REGRESSION: $f reproduces again"; echo "$out" | tail -2; bad=1; } ;;
  esac
done
[ $bad -eq 0 ] && echo "regressions: none reproduces ($(ls regressions/*.json | wc -l) replays)"
exit $bad
