from . import ci, im, mf, ti  # noqa: F401
