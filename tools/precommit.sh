#!/bin/sh
# everything that must hold before a commit: all quick checks exit 0 on the current tree, regressions do not reproduce
cd "$(dirname "$0")/.."
tools/runall.sh > /tmp/precommit.$$ 2>&1; rc=$?
grep -v "^KNOWN" /tmp/precommit.$$ | awk '{printf "%s %s  ", $1, $2}'; echo
[ $rc -ne 0 ] && { grep -E "VIOLATION|HARNESS" /tmp/precommit.$$ | cut -c1-300; rm -f /tmp/precommit.$$; echo "PRECOMMIT FAILED"; exit 1; }
rm -f /tmp/precommit.$$
tools/regress.sh || exit 1
python3-vt - <<'PY' || exit 1
import json, jsonschema, glob
jsonschema.validate(json.load(open('/verif/MANIFEST.json')), json.load(open('/root/.vp/MANIFEST.schema.json')))
for f in glob.glob('/verif/evidence/*.json'):
    jsonschema.validate(json.load(open(f)), json.load(open('/root/.vp/EVIDENCE.schema.json')))
print("manifest + %d evidence files valid" % len(glob.glob('/verif/evidence/*.json')))
PY
echo "PRECOMMIT OK"
