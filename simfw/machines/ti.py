"""M-TI / M-DI: nodes holding a TreeInfo (.treeinfo, INI) or a DiscInfo (.discinfo).

TreeInfo model:
  release{name,short,version,is_layered} base_product{name,short,version} tree{arch,build_timestamp,platforms[]}
  vars{vid:{id,uid,name,type,paths{kind:val},parent,children[],key}} top[vid]
  images{platform:{name:path}} stage2{mainimage,instimage} media{discnum,totaldiscs} checksums{path:[type,value]}
"""
import copy
import hashlib
import json
import posixpath
import re

from ..core import register_machine, Violation
from ..seams import CTX, HarnessError
from ..seams import make_set as SimSet
from ..util import cjson, h64, exc_class
from .. import pools
from .. import ini as inimod
from .base import FormatMachine, Slot, VALID, INVALID, UNSPEC, first_diff, diff_key, _text_diff, dec

REL_FIELDS = ["name", "short", "version", "is_layered"]
BP_FIELDS = ["name", "short", "version"]
PATH_KINDS = pools.TI_PATH_KINDS


def _is_int(v):
    return isinstance(v, int) and not isinstance(v, bool)


def ini_text_ok(v):
    """single-line, no leading/trailing blanks, no '%' (interpolation), non-empty"""
    return isinstance(v, str) and v != "" and v == v.strip() and "\n" not in v and "\r" not in v and "%" not in v


def _mkey(name):
    """model key for an option name: text as it is, anything else tagged (a mapping with mixed-type keys cannot be ordered)"""
    return name if isinstance(name, str) else "\x00nonstr:%r" % (name,)


def ini_name_ok(v):
    if isinstance(v, str) and v.startswith("\x00nonstr:"):
        return False
    return ini_text_ok(v) and "=" not in v and ":" not in v and v[0] not in "#;["


def product_validity(r, prefix, layered_flag):
    if not isinstance(r.get("name"), str):
        return INVALID, prefix + ".name:type"
    v = r.get("version")
    if not isinstance(v, str):
        return INVALID, prefix + ".version:type"
    if re.match(r"^\d", v) and (not re.match(r"^\d+(\.\d+)*$", v) or v.endswith("\n")):
        return INVALID, prefix + ".version:format"
    if not isinstance(r.get("short"), str):
        return INVALID, prefix + ".short:type"
    if layered_flag and not isinstance(r.get("is_layered"), bool):
        return INVALID, prefix + ".is_layered:type"
    for f in ("name", "version", "short"):
        if f == "short" and r[f] == "":
            continue        # an empty short name is what the library itself gives an unknown family: written as 'short = ', read back ''
        if not ini_text_ok(r[f]):
            return UNSPEC, prefix + ".%s:not-ini-representable" % f
    return VALID, ""


def tree_validity(t):
    if not isinstance(t.get("arch"), str):
        return INVALID, "tree.arch:type"
    if not t["arch"]:
        return INVALID, "tree.arch:blank"
    ts = t.get("build_timestamp")
    if isinstance(ts, bool):
        return UNSPEC, "tree.build_timestamp:bool"
    if not isinstance(ts, (int, float)):
        return INVALID, "tree.build_timestamp:type"
    if not ts:
        return INVALID, "tree.build_timestamp:blank"
    if ts != ts or ts in (float("inf"), float("-inf")):
        return UNSPEC, "tree.build_timestamp:nonfinite"
    if not isinstance(t.get("platforms"), list) or any(not ini_name_ok(p) or "," in p for p in t["platforms"]):
        return UNSPEC, "tree.platforms"
    if not ini_text_ok(t["arch"]) or "," in t["arch"]:
        return UNSPEC, "tree.arch:not-ini"
    return VALID, ""


def forest_vids(model):
    out = []

    def walk(vid, parent):
        out.append((vid, parent))
        for c in model["vars"][vid]["children"]:
            walk(c, vid)
    for t in model["top"]:
        walk(t, "top")
    return out


def ti_variant_validity(model, vid, parent):
    v = model["vars"][vid]
    i = v.get("id")
    if not isinstance(i, str):
        return INVALID, "variant.id:type"
    if "-" in i:
        return INVALID, "variant.id:dash"
    u = v.get("uid")
    if not isinstance(u, str):
        return UNSPEC, "variant.uid:type"
    if parent != "top":
        p = model["vars"][parent]
        if u != "%s-%s" % (p.get("uid"), i):
            return INVALID, "variant.uid:misaligned"
    else:
        key = v.get("key")
        k2 = key
        if isinstance(key, str) and "-" in key and v.get("type") != "optional":
            k2 = key.replace("-", "")
        if i != k2 and u != k2:
            return INVALID, "variant.key:mismatch"
    if v.get("type") not in pools.TI_VARIANT_TYPES:
        return INVALID, "variant.type:enum"
    if parent == "top" and v["type"] == "addon":
        return UNSPEC, "variant.toplevel-addon"
    if not isinstance(v.get("name"), str):
        return INVALID, "variant.name:type"           # documented as <str> (no validator of its own: the INI writer refuses it)
    for k, val in sorted(v["paths"].items()):
        if val and not isinstance(val, str):
            return INVALID, "variant.paths:type"      # (a falsy value counts as "not set")
    if not ini_text_ok(v.get("name")) or not ini_name_ok(u) or not ini_text_ok(i) or "," in u:
        return UNSPEC, "variant.text:not-ini"
    for k, val in v["paths"].items():
        if val is not None and val != "" and not ini_text_ok(val):      # ("" - the tree root itself - is written as 'packages =')
            return UNSPEC, "variant.paths:not-ini"
    return VALID, ""


def ti_validity(model):
    worst = [VALID, ""]

    def take(vv, why):
        if vv == UNSPEC and worst[0] == VALID:
            worst[0], worst[1] = vv, why
        return vv == INVALID
    r = model["release"]
    vv, why = product_validity(r, "release", True)
    if take(vv, why):
        return vv, why
    if r.get("is_layered") is True:
        vv, why = product_validity(model["base_product"], "base_product", False)
        if take(vv, why):
            return vv, why
    vv, why = tree_validity(model["tree"])
    if take(vv, why):
        return vv, why
    order = forest_vids(model)
    if len(set(v for v, _ in order)) != len(order):
        take(UNSPEC, "variant-twice")
    uids = set()
    for vid, parent in order:
        vv, why = ti_variant_validity(model, vid, parent)
        if take(vv, why):
            return vv, why
        u = model["vars"][vid].get("uid")
        if u in uids:
            take(UNSPEC, "duplicate-uid")
        uids.add(u)
    if not model["top"]:
        take(UNSPEC, "no-variants")
    # images
    plats = model["tree"].get("platforms") if isinstance(model["tree"].get("platforms"), list) else []
    arch = model["tree"].get("arch")
    for platform in sorted(model["images"]):
        table = model["images"][platform]
        for name in sorted(table):
            p = table[name]
            if isinstance(p, str) and p.startswith("/"):
                return INVALID, "images.path:absolute"
            if not ini_name_ok(name) or not ini_text_ok(p):
                take(UNSPEC, "images:not-ini")
    for platform in sorted(model["images"]):
        if platform not in plats:
            # also for the tree arch itself: the platform LIST of the object does not reference it (that the writer adds
            # the arch to the list it emits does not make the object valid - and the reader rejects such a file, C07)
            return INVALID, "images.platform:unreferenced" + ("-arch" if platform == arch else "")
        if not ini_name_ok(platform) or (isinstance(arch, str) and platform != arch and platform.endswith("-" + arch)):
            take(UNSPEC, "images.platform:name")
    s2 = model["stage2"]
    if s2.get("mainimage"):
        if not isinstance(s2["mainimage"], str):
            return INVALID, "stage2.mainimage:type"
        if s2["mainimage"].startswith("/"):
            return INVALID, "stage2.mainimage:absolute"
    if s2.get("instimage") and not isinstance(s2["instimage"], str):
        return INVALID, "stage2.instimage:type"
    for f in ("mainimage", "instimage"):
        if s2.get(f) and not ini_text_ok(s2[f]):
            take(UNSPEC, "stage2:not-ini")
    if s2.get("instimage") and isinstance(s2["instimage"], str) and s2["instimage"].startswith("/"):
        take(UNSPEC, "stage2.instimage:absolute")
    for path in sorted(model["checksums"]):
        if path.startswith("/"):
            return INVALID, "checksums.path:absolute"
        t, val = model["checksums"][path]
        if not ini_name_ok(path) or not ini_text_ok(t) or not ini_text_ok(val) or ":" in t or ":" in val:
            take(UNSPEC, "checksums:not-ini")
    m = model["media"]
    for f in ("discnum", "totaldiscs"):
        v = m.get(f)
        if isinstance(v, bool):
            take(UNSPEC, "media.%s:bool" % f)
        elif v is not None and not isinstance(v, int):
            return INVALID, "media.%s:type" % f
    if bool(m.get("discnum")) != bool(m.get("totaldiscs")):
        take(UNSPEC, "media:half-set")
    return worst[0], worst[1]


def expected_from_model(model):
    r = model["release"]
    e = {"release": dict((f, r[f]) for f in REL_FIELDS)}
    e["base_product"] = dict((f, model["base_product"][f]) for f in BP_FIELDS) if r["is_layered"] else None
    t = model["tree"]
    e["tree"] = {"arch": t["arch"], "build_timestamp": int(t["build_timestamp"]),
                 "platforms": sorted(set(t["platforms"]) | set([t["arch"]]))}
    forest = {}
    for vid, parent in forest_vids(model):
        v = model["vars"][vid]
        forest[v["uid"]] = {"id": v["id"], "uid": v["uid"], "name": v["name"], "type": v["type"],
                            "paths": dict((k, val) for k, val in v["paths"].items() if val is not None),
                            "parent": None if parent == "top" else model["vars"][parent]["uid"],
                            "children": sorted(model["vars"][c]["uid"] for c in v["children"])}
    e["forest"] = forest
    e["images"] = copy.deepcopy(model["images"])
    s2 = model["stage2"]
    e["stage2"] = {"mainimage": s2.get("mainimage") or None, "instimage": s2.get("instimage") or None}
    m = model["media"]
    if not m.get("discnum") and not m.get("totaldiscs"):
        e["media"] = {"discnum": None, "totaldiscs": None}
    else:
        e["media"] = {"discnum": m["discnum"], "totaldiscs": m["totaldiscs"]}
    e["checksums"] = dict((p, [tv[0], tv[1]]) for p, tv in model["checksums"].items())
    return e


def observe_ti(obj):
    o = {"release": dict((f, getattr(obj.release, f)) for f in REL_FIELDS)}
    o["base_product"] = dict((f, getattr(obj.base_product, f)) for f in BP_FIELDS) if obj.release.is_layered else None
    o["tree"] = {"arch": obj.tree.arch, "build_timestamp": obj.tree.build_timestamp, "platforms": sorted(obj.tree.platforms)}
    forest = {}

    def walk(container, parent_uid, depth):
        for key in sorted(container.variants):
            v = container.variants[key]
            if v.uid in forest or depth > 8:
                forest[str(v.uid) + "#dup"] = {}
                continue
            forest[v.uid] = {"id": v.id, "uid": v.uid, "name": v.name, "type": v.type,
                             "paths": dict((k, getattr(v.paths, k)) for k in PATH_KINDS if getattr(v.paths, k) is not None),
                             "parent": parent_uid, "children": sorted(c.uid for c in v.variants.values())}
            walk(v, v.uid, depth + 1)
    walk(obj.variants, None, 0)
    o["forest"] = forest
    o["images"] = dict((p, dict(t)) for p, t in obj.images.images.items())
    o["stage2"] = {"mainimage": obj.stage2.mainimage, "instimage": obj.stage2.instimage}
    o["media"] = {"discnum": obj.media.discnum, "totaldiscs": obj.media.totaldiscs}
    o["checksums"] = dict((p, [tv[0], tv[1]]) for p, tv in obj.checksums.checksums.items())
    return o


@register_machine("M-TI")
class TIMachine(FormatMachine):
    FORMAT = "treeinfo"
    ROUNDTRIP_PROP = "C04"
    KIND = "ini"
    FILE = ".treeinfo"
    HEADER_TYPE = "productmd.treeinfo"

    def mods(self):
        import productmd.treeinfo as m
        return m

    def new_obj(self):
        return self.mods().TreeInfo()

    def prop_for_invalid(self, why):
        # C16: "absolute paths are refused" - in a C16 run an absolute checksum path that gets written is reported there
        if why.startswith("checksums.path") and self.cfg.get("focus") == "C16":
            return "C16"
        return "C06"

    def observe(self, obj):
        return observe_ti(obj)

    def validity(self, s):
        return ti_validity(s.model)

    def expected_loaded(self, s):
        return expected_from_model(s.model)

    def abstract(self, s):
        m = s.model
        f = forest_vids(m)
        return [m["tree"].get("arch") == "src", bool(m["release"].get("is_layered")), len(m["tree"].get("platforms") or []) if isinstance(m["tree"].get("platforms"), list) else -1,
                sorted((m["vars"][v]["type"], len(m["vars"][v]["paths"]), p != "top") for v, p in f),
                len(m["images"]), bool(m["stage2"].get("mainimage")), bool(m["media"].get("discnum")), len(m["checksums"])]

    def abstract_expected(self, e):
        return [e["tree"]["arch"] == "src", e["release"]["is_layered"], len(e["tree"]["platforms"]),
                sorted((v["type"], sorted(v["paths"]), v["parent"] is not None) for v in e["forest"].values()),
                sorted(len(t) for t in e["images"].values()), bool(e["stage2"]["mainimage"]), bool(e["media"]["discnum"]), len(e["checksums"])]

    # ---- construction ---------------------------------------------------------------------
    def op_ti_init(self, op):
        s = Slot()
        s.obj = self.new_obj()
        o = s.obj
        s.model = {"release": dict((f, getattr(o.release, f)) for f in REL_FIELDS),
                   "base_product": dict((f, getattr(o.base_product, f)) for f in BP_FIELDS),
                   "tree": {"arch": o.tree.arch, "build_timestamp": o.tree.build_timestamp, "platforms": []},
                   "vars": {}, "top": [], "images": {}, "stage2": {"mainimage": None, "instimage": None},
                   "media": {"discnum": None, "totaldiscs": None}, "checksums": {}}
        self.slots[op.get("slot", 0)] = s
        for sec in ("release", "base_product", "tree"):
            for f, v in (op.get(sec) or {}).items():
                self._set(s, sec, f, v)
        return "ok"

    def _set(self, s, sec, f, v):
        v = dec(v)
        target = getattr(s.obj, sec)
        if sec == "tree" and f == "platforms":
            target.platforms = SimSet(v) if isinstance(v, list) else v
            s.model["tree"]["platforms"] = list(v) if isinstance(v, list) else v
        else:
            setattr(target, f, v)
            s.model[sec][f] = v

    def op_ti_set(self, op):
        s = self.slot(op)
        if s is None:
            return "noop"
        self._set(s, op["sec"], op["field"], op["value"])
        return "ok"

    def op_ti_platform(self, op):
        s = self.slot(op)
        if s is None or not isinstance(s.model["tree"]["platforms"], list):
            return "noop"
        s.obj.tree.platforms.add(op["value"])
        if op["value"] not in s.model["tree"]["platforms"]:
            s.model["tree"]["platforms"].append(op["value"])
        return "ok"

    def op_ti_var_new(self, op):
        s = self.slot(op)
        if s is None:
            return "noop"
        vid = str(op["vid"])
        owner = s.obj
        if "owner_slot" in op and self.slots.get(op["owner_slot"]) is not None:
            owner = self.slots[op["owner_slot"]].obj      # the object was created for ANOTHER tree and is added to this one
        v = self.mods().Variant(owner)
        v.id, v.uid, v.name, v.type = op["id"], op["uid"], op["name"], op["type"]
        paths = {}
        for k, val in (op.get("paths") or {}).items():
            setattr(v.paths, k, val)
            paths[k] = val
        s.pool[vid] = v
        s.model["vars"][vid] = {"id": op["id"], "uid": op["uid"], "name": op["name"], "type": op["type"], "paths": paths,
                                "parent": None, "children": [], "key": None}
        return "ok"

    def op_ti_var_set(self, op):
        s = self.slot(op)
        vid = str(op.get("var"))
        if s is None or vid not in s.pool:
            return "noop"
        setattr(s.pool[vid], op["field"], dec(op["value"]))
        s.model["vars"][vid][op["field"]] = dec(op["value"])
        return "ok"

    def op_ti_var_path(self, op):
        s = self.slot(op)
        vid = str(op.get("var"))
        if s is None or vid not in s.pool:
            return "noop"
        setattr(s.pool[vid].paths, op["kind"], dec(op["value"]))
        s.model["vars"][vid]["paths"][op["kind"]] = dec(op["value"])
        return "ok"

    def op_ti_var_add(self, op):
        s = self.slot(op)
        vid = str(op.get("var"))
        into = op.get("into", "top")
        into = "top" if into == "top" else str(into)
        if s is None or vid not in s.pool or (into != "top" and into not in s.pool):
            return "noop"
        mv = s.model["vars"][vid]
        if mv["parent"] is not None or s.tainted:
            return "noop"
        if into != "top" and (vid == into or vid in self._ancestors(s.model, into)):
            return "noop"
        v = s.pool[vid]
        try:
            if into == "top":
                s.obj.variants.add(v, variant_id=v.uid)
                key = v.uid
            else:
                s.pool[into].add(v)
                key = v.id
        except Exception as e:
            if isinstance(e, HarnessError):
                raise
            # treeinfo add semantics are not the subject of a property: follow the observation
            s.tainted = True
            return "refused:" + exc_class(e)
        mv["parent"] = into
        mv["key"] = key
        (s.model["top"] if into == "top" else s.model["vars"][into]["children"]).append(vid)
        return "ok"

    def op_ti_var_offer(self, op):
        """A variant is offered to a variant of the tree in a way the library refuses: a child whose UID does not line up, a
        second object under an ID that is taken, the top-level variant of ANOTHER tree whose twin already lives here.  What
        treeinfo's add() does with such an offer is no property's subject; its CONSEQUENCES are: whatever the tree is
        afterwards, a file the library agrees to write for it is read back (C04), and a refused offer does not change the
        bytes another tree is written as (C08)."""
        s = self.slot(op)
        into = str(op.get("into"))
        if s is None or s.obj is None or s.tainted or into not in s.pool or s.model["vars"][into]["parent"] is None:
            return "noop"
        M = self.mods()
        mi = s.model["vars"][into]
        kind = op["kind"]
        other = None
        if kind == "misaligned":
            v = M.Variant(s.obj)
            v.id = v.uid = v.name = "HA%d" % (op.get("n", 0) % 10)
            v.type = "addon"
            v.paths.repository, v.paths.packages = "addons/HA", "addons/HA/Packages"
        else:
            if not mi["children"]:
                return "noop"
            mc = s.model["vars"][mi["children"][op.get("n", 0) % len(mi["children"])]]
            owner = s.obj
            if kind == "foreign-twin":
                other = M.TreeInfo()
                for sec, fields in (("release", REL_FIELDS), ("base_product", BP_FIELDS)):
                    for f in fields:
                        setattr(getattr(other, sec), f, getattr(getattr(s.obj, sec), f))
                other.tree.arch, other.tree.build_timestamp = s.obj.tree.arch, s.obj.tree.build_timestamp
                owner = other
            v = M.Variant(owner)
            v.id, v.uid, v.name, v.type = mc["id"], mc["uid"], "twin of " + str(mc["name"]), mc["type"]
            v.paths.repository, v.paths.packages = "twin", "twin/Packages"
            if other is not None:
                try:
                    other.variants.add(v, variant_id=v.uid)
                    before2 = other.dumps()
                except Exception as e:
                    if isinstance(e, HarnessError):
                        raise
                    return "noop-other-tree-not-buildable"
        before = observe_ti(s.obj)
        try:
            s.pool[into].add(v)
            raised = None
        except Exception as e:
            if isinstance(e, HarnessError):
                raise
            raised = e
        after = observe_ti(s.obj)
        CTX.probe("ti.offer.%s.%s" % (kind, "refused" if raised is not None else "accepted"))
        if raised is not None:
            CTX.fault("F5.refused_api_call")
        focus = self.cfg.get("focus")
        if other is not None and raised is not None and focus in ("C04", "C08"):
            try:
                after2 = other.dumps()
            except Exception as e:
                if isinstance(e, HarnessError):
                    raise
                after2 = "raises " + exc_class(e)
            self.count(focus, ["offer-foreign-twin", mc["type"]])
            if after2 != before2:
                raise Violation(focus, "%s.refused_offer_leaves_the_other_tree_alone" % focus, "another-tree-written-differently-after-refused-add",
                                {"diff": _text_diff(before2, after2) if "_text_diff" in globals() else [before2[-200:], after2[-200:]]})
        if after != before:
            # the tree is no longer what the model says: no model oracle from here on, but the library's own output is still
            # held against itself (see op_restart: it must load, and re-dump byte for byte)
            s.tainted = True
            s.self_rt = True
            CTX.probe("ti.offer.changed_the_tree")
            return "offer-changed:" + kind
        return "offer-unchanged:" + kind

    def _ancestors(self, model, vid):
        out, cur, guard = [], vid, 0
        while cur not in (None, "top") and guard < 50:
            out.append(cur)
            cur = model["vars"][cur]["parent"]
            guard += 1
        return out

    def op_ti_image(self, op):
        s = self.slot(op)
        if s is None:
            return "noop"
        s.obj.images.images.setdefault(op["platform"], {})[op["name"]] = op["path"]
        s.model["images"].setdefault(op["platform"], {})[_mkey(op["name"])] = op["path"]
        return "ok"

    def op_ti_image_name_del(self, op):
        s = self.slot(op)
        if s is None or op["platform"] not in s.model["images"]:
            return "noop"
        s.obj.images.images[op["platform"]].pop(op["name"], None)
        s.model["images"][op["platform"]].pop(_mkey(op["name"]), None)
        return "ok"

    def op_ti_image_table(self, op):
        """a platform gets an (empty) image table"""
        s = self.slot(op)
        if s is None:
            return "noop"
        s.obj.images.images.setdefault(op["platform"], {})
        s.model["images"].setdefault(op["platform"], {})
        return "ok"

    def op_ti_image_del(self, op):
        s = self.slot(op)
        if s is None or op["platform"] not in s.model["images"]:
            return "noop"
        del s.obj.images.images[op["platform"]]
        del s.model["images"][op["platform"]]
        return "ok"

    def op_ti_stage2(self, op):
        s = self.slot(op)
        if s is None:
            return "noop"
        setattr(s.obj.stage2, op["field"], dec(op["value"]))
        s.model["stage2"][op["field"]] = dec(op["value"])
        return "ok"

    def op_ti_media(self, op):
        s = self.slot(op)
        if s is None:
            return "noop"
        for f in ("discnum", "totaldiscs"):
            if f in op:
                setattr(s.obj.media, f, dec(op[f]))
                s.model["media"][f] = dec(op[f])
        return "ok"

    def op_ti_serialize(self, op):
        """the public serialize(parser[, main_variant]) used directly (a caller that post-processes the parser): what it
        puts into the parser is judged like a written file"""
        s = self.slot(op)
        if s is None or s.obj is None or s.tainted or self.validity(s)[0] != VALID:
            return "noop"
        import io
        import productmd.common
        parser = productmd.common.SortedConfigParser()
        try:
            if "main_variant" in op:
                s.obj.serialize(parser, main_variant=op["main_variant"])
            else:
                s.obj.serialize(parser)
            f = io.StringIO()
            s.obj.build_file(parser, f)
        except Exception as e:
            if isinstance(e, HarnessError):
                raise
            return "refused:" + exc_class(e)
        self.file_invariants(s, f.getvalue(), op)
        CTX.probe("ti.serialize_called_directly")
        return "ok"

    def op_ti_clear(self, op):
        """an OPTIONAL part of the description is taken back as a whole (nothing of it may be written any more)"""
        s = self.slot(op)
        if s is None or s.obj is None:
            return "noop"
        what = op["what"]
        if what == "stage2":
            s.obj.stage2.mainimage = None
            s.obj.stage2.instimage = None
            s.model["stage2"]["mainimage"] = None
            s.model["stage2"]["instimage"] = None
        elif what == "media":
            s.obj.media.discnum = None
            s.obj.media.totaldiscs = None
            s.model["media"]["discnum"] = None
            s.model["media"]["totaldiscs"] = None
        elif what == "checksums":
            if op.get("inplace"):
                s.obj.checksums.checksums.clear()
            else:
                s.obj.checksums.checksums = {}
            s.model["checksums"].clear()
        elif what == "images":
            s.obj.images.images.clear()
            s.model["images"].clear()
        return "ok"

    def op_ti_checksum_raw(self, op):
        """plant an entry directly (poison: absolute path)"""
        s = self.slot(op)
        if s is None:
            return "noop"
        if op.get("delete"):
            s.obj.checksums.checksums.pop(op["path"], None)
            s.model["checksums"].pop(op["path"], None)
        else:
            s.obj.checksums.checksums[op["path"]] = (op["ctype"], op["value"])
            s.model["checksums"][op["path"]] = [op["ctype"], op["value"]]
        return "ok"

    # ---- C16 (a)(b): checksums through the disk seam --------------------------------------------
    def op_fs_symlink(self, op):
        """a file of the tree is a (relative) symbolic link to a file kept elsewhere in the tree"""
        import os
        from .. import simfs
        link = self.fs.real(op["path"])
        simfs._o["makedirs"](os.path.dirname(link), exist_ok=True)
        if os.path.lexists(link):
            simfs._o["remove"](link)
        simfs._o["symlink"](op["target"], link)
        return "ok"

    def op_fs_file(self, op):
        """create a file on SimFS: size + content derived from a seed (deterministic)."""
        import random
        rng = random.Random(op["seed"])
        size = op["size"]
        block = bytes(rng.getrandbits(8) for _ in range(min(size, 4096)))
        data = (block * (size // max(len(block), 1) + 1))[:size] if size else b""
        self.fs.put(op["path"], data)
        return "ok:%d" % size

    def op_ti_checksum_add(self, op):
        s = self.slot(op)
        if s is None or s.obj is None:
            return "noop"
        rel, ctype = op["path"], op["ctype"]
        value = op.get("value")
        root = op.get("root_dir", "/sim/tree")
        before = dict((p, [tv[0], tv[1]]) for p, tv in s.obj.checksums.checksums.items())
        fault = op.get("fault")
        npath = posixpath.normpath(rel)
        target = posixpath.normpath(posixpath.join(root, npath))
        data = self.fs.get(target)
        if fault and not value and data is not None:
            if fault["kind"] == "eio_on_open":
                self.fs.arm("F6.eio_on_open", target)
            elif fault["kind"] == "eacces_on_open":
                self.fs.arm("F6.eacces_on_open", target)
            elif fault["kind"] == "eio_at_offset":
                self.fs.arm("F6.eio_at_offset", target, offset=fault["offset"] % max(len(data), 1))
        mark = len(self.fs.trace)
        try:
            if value and op.get("also_root"):
                # both given: the caller's value is what counts (the file is not even looked at)
                s.obj.checksums.add(rel, ctype, value, root)
            elif value:
                s.obj.checksums.add(rel, ctype, value)
            else:
                s.obj.checksums.add(rel, ctype, root_dir=root)
            raised = None
        except Exception as e:
            if isinstance(e, HarnessError):
                raise
            raised = e
        armed_left = bool(self.fs.armed)
        self.fs.disarm()
        after = dict((p, [tv[0], tv[1]]) for p, tv in s.obj.checksums.checksums.items())
        fired = fault and not value and data is not None and not armed_left
        if rel.startswith("/"):
            self.count("C16", ["abs", bool(value)])
            CTX.fault("F5.refused_api_call")
            if raised is None:
                raise Violation("C16", "C16.absolute_path_refused", "absolute-checksum-path-accepted", {"path": rel})
            if not isinstance(raised, (ValueError, TypeError)):
                raise Violation("C16", "C16.absolute_path_refused", "absolute-path-exctype/%s" % exc_class(raised), {})
            if after != before:
                raise Violation("C16", "C16.refused_add_changes_nothing", "table-changed-by-refused-add", {"diff": first_diff(before, after)})
            return "refused-abs"
        if value:
            if raised is not None:
                raise Violation("C16", "C16.explicit_checksum_recorded", "explicit-add-raises/%s" % exc_class(raised), {"msg": str(raised)[:120]})
            want = dict(before)
            want[npath] = [ctype, value]
            d = first_diff(want, after)
            self.count("C16", ["explicit", npath != rel])
            if d:
                raise Violation("C16", "C16.recorded_under_normalised_path", "explicit-add-effect/%s" % diff_key(d), {"diff": d, "rel": rel})
            s.model["checksums"][npath] = [ctype, value]
            return "ok-explicit"
        # compute path
        if data is None or fired:
            self.count("C16", ["compute-fault", fault["kind"] if fired else "missing", len(data or b"") >> 20])
            if raised is None:
                raise Violation("C16", "C16.read_fault_never_yields_a_digest", "digest-recorded-despite-%s" % (fault["kind"] if fired else "missing-file"),
                                {"recorded": after.get(npath), "size": len(data or b"")})
            if after != before:
                raise Violation("C16", "C16.read_fault_never_yields_a_digest", "table-changed-by-failed-compute", {"diff": first_diff(before, after)})
            return "compute-failed:" + exc_class(raised)
        try:
            want_digest = hashlib.new(ctype, data).hexdigest()
        except (ValueError, TypeError):
            # unknown algorithm name: must not record anything
            if raised is None:
                raise Violation("C16", "C16.unknown_algorithm", "unknown-algorithm-recorded", {"ctype": ctype})
            return "unknown-algo"
        size = len(data)
        MiB = 1 << 20
        cls = "0" if size == 0 else ("lt" if size < MiB else ("eq" if size % MiB == 0 else ("straddle" if size % MiB in (1, MiB - 1) else "gt")))
        self.count("C16", ["compute", ctype, cls, size >> 20, npath != rel])
        CTX.probe("c16.size_class." + cls)
        if raised is not None:
            raise Violation("C16", "C16.compute_succeeds", "compute-raises/%s" % exc_class(raised), {"msg": str(raised)[:160], "ctype": ctype, "size": size})
        got = after.get(npath)
        if got is None:
            raise Violation("C16", "C16.recorded_under_normalised_path", "not-recorded-under-normpath", {"rel": rel, "keys": sorted(after)[:5]})
        if got[0] != ctype or got[1] != want_digest:
            raise Violation("C16", "C16.digest_is_true_digest_of_whole_file", "wrong-digest/%s" % cls,
                            {"ctype": ctype, "size": size, "got": got[1][:16], "want": want_digest[:16]})
        want = dict(before)
        want[npath] = [ctype, want_digest]
        d = first_diff(want, after)
        if d:
            raise Violation("C16", "C16.recorded_under_normalised_path", "compute-add-effect/%s" % diff_key(d), {"diff": d})
        # the whole file was consumed (observed on the read trace)
        reads = [t for t in self.fs.trace[mark:] if t[0] == "read" and t[1] == target]
        consumed = sum(t[4] for t in reads)
        if reads and consumed < size:
            raise Violation("C16", "C16.digest_is_true_digest_of_whole_file", "file-not-fully-read", {"consumed": consumed, "size": size})
        s.model["checksums"][npath] = [ctype, want_digest]
        return "ok-computed"

    # ---- dump with main_variant ---------------------------------------------------------------------
    def do_dump(self, s, target, op):
        mv = op.get("main_variant")
        target = self.dest(target, op)
        if mv is not None:
            s.obj.dump(target, main_variant=mv)
        else:
            s.obj.dump(target)

    def redump(self, new, d):
        mv = (d.get("kw") or {}).get("main_variant")
        scratch = "/sim/d/.redump"
        if mv is not None:
            new.dump(scratch, main_variant=mv)
        else:
            new.dump(scratch)
        text = self.fs.get(scratch).decode("utf-8")
        self.fs.remove(scratch)
        return text

    def dumps_for_cmp(self, s, op):
        return s.obj.dumps()

    def validity_for_dump(self, s, op):
        return self.validity(s)

    def _sane(self, op):
        """a main_variant that does not name a top-level variant is not an input the properties speak about"""
        s = self.slot(op)
        if s is not None and op.get("main_variant") is not None:
            keys = [s.model["vars"][v]["key"] for v in s.model["top"]] if not s.tainted else []
            if op["main_variant"] not in keys:
                op = dict(op)
                op.pop("main_variant")
        return op

    def op_c18_enum(self, op):
        return FormatMachine.op_c18_enum(self, self._sane(op))

    def op_dump(self, op):
        s = self.slot(op)
        op = self._sane(op)
        r = FormatMachine.op_dump(self, op)
        if r == "ok":
            path = self.path(op)
            self.durable[path]["aux"] = dict((s.model["vars"][vid]["uid"], vid) for vid, _ in forest_vids(s.model))
            self.durable[path]["base"] = copy.deepcopy(s.model)
            # a float build timestamp is written with str() and read back through int(): outside C04's
            # quantifier (integer timestamps), so no byte-identical re-dump is demanded for it
            self.durable[path]["lossy"] = isinstance(s.model["tree"]["build_timestamp"], float)
            if any(p != "top" for _, p in forest_vids(s.model)):
                CTX.probe("ti.child_variant_serialised")
        return r

    # ---- C17 + independent reader on every text written -----------------------------------------------------
    def file_invariants(self, s, text, op):
        if s.tainted:
            return
        m = s.model
        if self.validity(s)[0] != VALID or not (self.watching("C04") or self.watching("C17")):
            return
        try:
            doc = inimod.as_dict(text)
        except inimod.IniError as e:
            if not self.watching("C04"):
                return
            raise Violation("C04", "C04.file_readable_by_independent_ini_reader", "independent-reader-fails", {"error": str(e)[:120]})
        exp = expected_from_model(m)
        if self.watching("C04"):
            self._independent_reader_check(doc, exp)
        if self.watching("C17"):
            self._general_check(doc, exp, m, op)

    def _independent_reader_check(self, doc, exp):
        # C04: what an independent reader sees in the authoritative sections (catches symmetric writer/reader errors)
        self.count("C04", ["independent", self.abstract_expected(exp)])
        rel = doc.get("release", {})
        for f in ("name", "short", "version"):
            if rel.get(f) != exp["release"][f]:
                raise Violation("C04", "C04.independent_reader_sees_written_facts", "independent/release.%s" % f, {"got": rel.get(f), "want": exp["release"][f]})
        tr = doc.get("tree", {})
        if tr.get("arch") != exp["tree"]["arch"] or tr.get("platforms") != ",".join(exp["tree"]["platforms"]):
            raise Violation("C04", "C04.independent_reader_sees_written_facts", "independent/tree", {"got": tr, "want": exp["tree"]})
        for platform, table in exp["images"].items():
            sec = doc.get("images-" + platform)
            if sec != table:
                raise Violation("C04", "C04.independent_reader_sees_written_facts", "independent/images-table",
                                {"platform": platform, "diff": first_diff(table, sec if sec is not None else {})})
        cs = doc.get("checksums", {})
        for p, (t, v) in exp["checksums"].items():
            if cs.get(p) != "%s:%s" % (t, v):
                raise Violation("C04", "C04.independent_reader_sees_written_facts", "independent/checksums", {"path": p, "got": cs.get(p)})
        for uid, v in exp["forest"].items():
            secname = ("addon-" if v["type"] == "addon" else "variant-") + uid
            sec = doc.get(secname)
            if sec is None:
                raise Violation("C04", "C04.independent_reader_sees_written_facts", "independent/variant-section-missing", {"section": secname})
            for k, val in v["paths"].items():
                if sec.get(k) != val:
                    raise Violation("C04", "C04.independent_reader_sees_written_facts", "independent/variant-path", {"section": secname, "kind": k})

    def _general_check(self, doc, exp, m, op):
        # C17
        g = doc.get("general")
        top = [m["vars"][v] for v in m["top"]]
        keys = sorted(v["key"] for v in top)
        mv = op.get("main_variant")
        self.count("C17", ["general", m["tree"]["arch"] == "src", len(top), mv is not None, isinstance(m["tree"]["build_timestamp"], float),
                           m["tree"]["arch"] in m["tree"]["platforms"], len(m["tree"]["platforms"])])
        if g is None:
            raise Violation("C17", "C17.general_section_present", "no-general-section", {})
        want = {"family": m["release"]["name"], "version": m["release"]["version"],
                "name": "%s %s" % (m["release"]["name"], m["release"]["version"]),
                "arch": m["tree"]["arch"], "platforms": ",".join(exp["tree"]["platforms"]),
                "timestamp": str(int(m["tree"]["build_timestamp"]))}
        chosen = mv if mv is not None else keys[0]
        want["variant"] = chosen
        cv = [v for v in top if v["key"] == chosen][0]
        src = m["tree"]["arch"] == "src"
        pk = cv["paths"].get("packages")
        if pk is None and src:
            pk = cv["paths"].get("source_packages")
            if pk is not None:
                CTX.probe("c17.src_fallback_packagedir")
        rp = cv["paths"].get("repository")
        if rp is None and src:
            rp = cv["paths"].get("source_repository")
        want["packagedir"] = pk
        want["repository"] = rp
        for k, w in sorted(want.items()):
            got = g.get(k)
            if got != w:
                raise Violation("C17", "C17.general_mirrors_authoritative_sections", "general.%s-differs" % k,
                                {"field": k, "got": got, "want": w, "main_variant": mv})
        # ...and the sections it mirrors say the same IN THE FILE (arch / platforms of [tree], name / version of [release])
        tr, rl = doc.get("tree") or {}, doc.get("release") or {}
        for k, sec, opt in (("arch", tr, "arch"), ("platforms", tr, "platforms"), ("family", rl, "name"), ("version", rl, "version")):
            if sec.get(opt) != g.get(k):
                raise Violation("C17", "C17.general_mirrors_authoritative_sections", "general.%s-differs-from-file-section" % k,
                                {"field": k, "general": g.get(k), "section": sec.get(opt)})
        if mv is not None and keys and mv != keys[0]:
            CTX.probe("c17.non_default_main_variant")
        if len(keys) > 1:
            CTX.probe("c17.several_toplevel_variants")

    def prop_for_diff(self, diff):
        if diff.startswith("/checksums") and self.cfg.get("focus") == "C16":
            return "C16"
        return "C04"

    def op_ti_var_del(self, op):
        """remove a top-level variant (and its subtree) through the public __delitem__"""
        s = self.slot(op)
        vid = str(op.get("var"))
        if s is None or s.tainted or vid not in s.pool or s.model["vars"][vid]["parent"] != "top" or len(s.model["top"]) < 2:
            return "noop"
        mv = s.model["vars"][vid]
        try:
            del s.obj.variants[mv["key"]]
        except Exception as e:
            if isinstance(e, HarnessError):
                raise
            s.tainted = True
            return "refused:" + exc_class(e)
        s.model["top"].remove(vid)

        def drop(v):
            for c in s.model["vars"][v]["children"]:
                drop(c)
            del s.model["vars"][v]
            s.pool.pop(v, None)
        drop(vid)
        return "ok"

    # ---- C16 (c): bare legacy digests in the stored [checksums] section --------------------------------------
    def op_ti_bare_digests(self, op):
        path = self.path(op)
        d = self.durable.get(path)
        if d is None or not d["clean"] or d["expected"] is None or d.get("legacy"):
            return "noop"
        exp = d["expected"]
        paths = sorted(exp["checksums"])
        if not paths:
            return "noop"
        text = self.fs.get(path).decode("utf-8")
        lines = text.split("\n")
        plan = op.get("plan", [])
        new_expected = copy.deepcopy(exp)
        must_reject = False
        changed = 0
        kinds = []
        for i, p in enumerate(paths):
            mode = plan[i % len(plan)] if plan else "keep"
            if mode == "keep":
                continue
            t, v = exp["checksums"][p]
            if mode == "bare":
                nv = v
            elif mode == "bare32":
                nv = (v * 4)[:32]
            elif mode == "bare40":
                nv = (v * 4)[:40]
            elif mode == "bare64":
                nv = (v * 4)[:64]
            else:   # bare with an unrecognised length
                n = int(mode[4:])
                nv = (v * 8)[:n]
            want_line = "%s = %s:%s" % (p, t, v)
            if want_line not in lines:
                return "noop-line-not-found"
            lines[lines.index(want_line)] = "%s = %s" % (p, nv)
            changed += 1
            L = len(nv)
            kinds.append((i == 0, L))
            if L == 32:
                new_expected["checksums"][p] = ["md5", nv]
            elif L == 40:
                new_expected["checksums"][p] = ["sha1", nv]
            elif L == 64:
                new_expected["checksums"][p] = ["sha256", nv]
            else:
                must_reject = True
                CTX.probe("c16.bare_digest_unrecognised_length.%s" % ("first" if i == 0 else "later"))
            if L in (32, 40, 64):
                CTX.probe("c16.bare_digest_len_%d" % L)
        if not changed:
            return "noop"
        self.fs.put(path, "\n".join(lines))
        CTX.fault("F3.bare_legacy_digests")
        d["clean"] = False
        d["bare"] = {"expected": new_expected, "must_reject": must_reject, "kinds": kinds}
        return "bare:%d:%s" % (changed, "reject" if must_reject else "accept")

    LEGACY_PRIME = ("[general]\nfamily = Fedora\nversion = 20\narch = x86_64\ntimestamp = 1386857206\nvariant = Server\n"
                    "packagedir = Packages\nrepository = .\n\n[checksums]\nimages/boot.iso = sha256:" + "ab" * 32 + "\n"
                    "/mnt/build/os/images/pxeboot/vmlinuz = sha256:" + "cd" * 32 + "\n")

    def op_ti_abs_key_stored(self, op):
        """C16: "absolute paths are refused ... no path ever carries a checksum that was written for another" - also for an
        absolute KEY sitting in a stored current-format file, and whatever the reading object did before: nothing, a
        current-format tree, or a header-less pre-productmd file (whose absolute keys are legitimately cut down)."""
        path = self.path(op)
        d = self.durable.get(path)
        if d is None or not d["clean"] or d["expected"] is None or d.get("legacy") or self.fs.get(path) is None:
            return "noop"
        paths = sorted(d["expected"]["checksums"])
        text = self.fs.get(path).decode("utf-8")
        if not paths or "[checksums]\n" not in text:
            return "noop"
        victim = paths[op.get("n", 0) % len(paths)]
        prefix = ["/mnt/build/os/", "/", "/compose/Server/x86_64/os/"][op.get("n", 0) % 3]
        text2 = text.replace("[checksums]\n", "[checksums]\n%s%s = sha256:%s\n" % (prefix, victim, "0f" * 32), 1)
        scratch = "/sim/d/.c16-abs-" + self.FILE
        self.fs.put(scratch, text2)
        CTX.fault("F3.structured_damage")
        for prime in ("none", "current", "headerless"):
            obj = self.new_obj()
            try:
                if prime == "current":
                    self.fs.put(scratch + ".prime", self.prime_document())
                    obj.load(scratch + ".prime")
                elif prime == "headerless":
                    self.fs.put(scratch + ".prime", self.LEGACY_PRIME)
                    obj.load(scratch + ".prime")
            except Exception as e:
                if isinstance(e, HarnessError):
                    raise
                continue            # the priming document itself is not this op's subject
            try:
                obj.load(scratch)
                raised = None
            except Exception as e:
                if isinstance(e, HarnessError):
                    raise
                raised = e
            self.count("C16", ["abs-key-stored", prime, raised is not None])
            CTX.probe("c16.absolute_key_in_stored_file.%s" % prime)
            if raised is None:
                got = observe_ti(obj)["checksums"].get(victim)
                raise Violation("C16", "C16.absolute_path_refused", "absolute-checksum-key-loaded/after-%s" % prime,
                                {"victim": victim, "victim_now": got and [got[0], got[1][:16]]})
        return "abs-key-refused"

    def _restart_bare(self, s, op, path, d):
        via = op.get("via", "path")
        b = d["bare"]
        # digests without a type are what older files hold: in a run that is about reading older documents the same
        # oracle speaks for that property
        P = "C05" if self.cfg.get("focus") == "C05" else "C16"
        CTX.fault("F9.restart_" + via)
        try:
            new = self.load_fresh(path, via, op.get("offset", 0))
        except Exception as e:
            if isinstance(e, HarnessError):
                raise
            self.count(P, ["bare-rejected", b["must_reject"], sorted(set(b["kinds"]))])
            if not b["must_reject"]:
                raise Violation(P, "C16.bare_digest_typed_by_length", "recognised-bare-digest-rejected/%s" % exc_class(e),
                                {"msg": str(e)[:160]})
            return "load-failed:" + exc_class(e)
        got = observe_ti(new)["checksums"]
        self.count(P, ["bare-loaded", b["must_reject"], sorted(set(b["kinds"]))])
        # no path may carry a checksum that the file gives for another path
        stored = inimod.as_dict(self.fs.get(path).decode("utf-8")).get("checksums", {})
        for p, (t, v) in sorted(got.items()):
            raw = stored.get(p)
            if raw is None:
                raise Violation(P, "C16.no_path_carries_anothers_checksum", "loaded-path-not-in-file", {"path": p})
            rv = raw.split(":", 1)[1] if ":" in raw else raw
            if v != rv:
                raise Violation(P, "C16.no_path_carries_anothers_checksum", "path-carries-value-of-another-entry",
                                {"path": p, "loaded": [t, v[:16]], "file": raw[:40]})
        if b["must_reject"]:
            raise Violation(P, "C16.unrecognised_bare_digest_rejected", "unrecognised-bare-digest-loaded", {"kinds": b["kinds"]})
        diff = first_diff(b["expected"]["checksums"], got)
        if diff:
            raise Violation(P, "C16.bare_digest_typed_by_length", "bare-digest-mistyped/%s" % diff_key(diff), {"diff": diff})
        s.obj = new
        s.tainted = True
        self.rebind(s)
        return "restarted-bare"

    def op_ti_downgrade(self, op):
        """F8: rewrite the stored .treeinfo as 1.1 / 1.0 (header), 0.3 ([product] section; in a src tree the source
        paths are stored as packages/repository) or 0.0 (pre-productmd: only the compatibility sections)."""
        path = self.path(op)
        d = self.durable.get(path)
        if d is None or not d["clean"] or d["expected"] is None or d.get("legacy"):
            return "noop"
        ver = op.get("version", "1.0")
        exp = copy.deepcopy(d["expected"])
        sections, _ = inimod.parse(self.fs.get(path).decode("utf-8"))
        secs = [(n, list(o)) for n, o in sections]

        def render(ss):
            return "".join("[%s]\n%s\n" % (n, "".join("%s = %s\n" % kv for kv in o)) for n, o in ss)
        if ver == "0.0":
            name = exp["release"]["name"]
            keep = [(n, o) for n, o in secs if n == "general" or n.startswith("images-") or n in ("stage2", "checksums")]
            if "-" in (dict(dict(secs).get("general", [])).get("variant") or "-"):
                return "noop-dashed-main-variant"       # pre-productmd files have no dashed variant names
            text = render(keep)
            # the mapping of a header-less file is undocumented except for what the properties say themselves: every
            # (relative) checksum path keeps exactly the algorithm and value the file gives for it (C16)
            partial = {"checksums": copy.deepcopy(exp["checksums"])}
            if int(exp["tree"]["build_timestamp"]) != 0:
                # ... and arch / timestamp / platforms are what the compatibility sections say: the arch plus every platform
                # that has an image table (C17: "a pre-productmd reader sees the same tree")
                arch0 = exp["tree"]["arch"]
                plats0 = set([arch0])
                for n, o in keep:
                    if n.startswith("images-"):
                        pl = n[7:]
                        if pl != arch0 and pl.endswith("-" + arch0):
                            pl = pl[:-len(arch0) - 1]
                        plats0.add(pl)
                partial["tree"] = {"arch": arch0, "build_timestamp": int(exp["tree"]["build_timestamp"]), "platforms": sorted(plats0)}
            exp = None
        else:
            vt = tuple(int(x) for x in ver.split("."))
            out = []
            for n, o in secs:
                if n == "header":
                    o = [("version", ver)] + ([("type", "productmd.treeinfo")] if vt >= (1, 1) else [])
                if vt < (1, 0):
                    if n == "release":
                        n = "product"
                    if (n.startswith("variant-") or n.startswith("addon-")) and exp["tree"]["arch"] == "src":
                        od = dict(o)
                        if "packages" in od or "repository" in od:
                            return "noop-src-tree-with-binary-paths"
                        o = [(("packages" if k == "source_packages" else "repository" if k == "source_repository" else k), v) for k, v in o]
                out.append((n, o))
            text = render(out)
        self.fs.put(path, text)
        self.durable[path] = {"expected": exp, "bytes": self.fs.get(path), "clean": True, "legacy": True, "legacy_version": ver,
                              "legacy_prop": op.get("tag", "C05"), "source": "downgrade", "kw": {}}
        if ver == "0.0":
            self.durable[path]["partial"] = partial
        return "downgraded:" + ver

    # ---- C05: a pre-productmd file written by somebody else (independent writer), with the spellings such files had ----
    def op_ti_pre_productmd_synth(self, op):
        """The file states a handful of facts in its [general] section.  Whatever else the conversion has to guess, a fact
        the file STATES comes back as stated: family / version / arch / variant / timestamp, a packagedir or repository
        that is present (an EMPTY packagedir means the tree root), the disc number (and the total, if given - a disc number
        beyond the total is not the same fact).  The converted object is then written and must re-load identically."""
        g = op["general"]
        lines = ["[general]"] + ["%s = %s" % (k, g[k]) for k in sorted(g)]
        for sec, table in sorted((op.get("sections") or {}).items()):
            lines += ["", "[%s]" % sec] + ["%s = %s" % kv for kv in sorted(table.items())]
        path = self.path(op)
        self.fs.put(path, "\n".join(lines) + "\n")
        CTX.fault("F8.older_format_on_disk")
        new = self.new_obj()
        via = op.get("via", "path")
        try:
            if via == "loads":
                new.loads(self.fs.get(path).decode("utf-8"))
            elif via == "handle":
                with open(path, "r") as fo:
                    new.load(fo)
            else:
                new.load(path)
        except Exception as e:
            if isinstance(e, HarnessError):
                raise
            raise Violation("C05", "C05.older_document_accepted", "older-document-rejected/treeinfo/pre-productmd-synth/%s" % exc_class(e), {"msg": str(e)[:160]})
        self.count("C05", ["pre-productmd-synth", sorted(g), g.get("arch") == "src"])
        src = g["arch"] == "src"
        facts = [("family", new.release.name, g["family"]), ("version", new.release.version, g["version"]), ("arch", new.tree.arch, g["arch"]),
                 ("variants", sorted(new.variants.variants), [g["variant"]]),
                 ("timestamp", int(new.tree.build_timestamp), int(float(g["timestamp"])))]
        v = new.variants.variants.get(g["variant"])
        if v is not None:
            if "packagedir" in g:
                want_pk = g["packagedir"].rstrip("/") or "."
                if g["family"] == "Fedora" and want_pk == ".":
                    # the one documented conversion example (doc/treeinfo-1.x.rst): Fedora kept its RPMs in 'Packages' and
                    # wrote an empty packagedir
                    want_pk = "Packages"
                facts.append(("packagedir", v.paths.source_packages if src else v.paths.packages, want_pk))
            if "repository" in g:
                facts.append(("repository", v.paths.source_repository if src else v.paths.repository, g["repository"].rstrip("/") or "."))
        if "discnum" in g:
            facts.append(("discnum", new.media.discnum, int(g["discnum"])))
        if "totaldiscs" in g:
            facts.append(("totaldiscs", new.media.totaldiscs, int(g["totaldiscs"])))
        for k, got, want in facts:
            if got != want:
                raise Violation("C05", "C05.upgrade_carries_same_facts", "upgrade-differs/treeinfo/pre-productmd-synth/%s" % k, {"got": got, "want": want})
        if ("discnum" in g or "totaldiscs" in g) and new.media.discnum is not None and new.media.totaldiscs is not None \
                and new.media.discnum > new.media.totaldiscs:
            raise Violation("C05", "C05.upgrade_carries_same_facts", "upgrade-differs/treeinfo/pre-productmd-synth/disc-beyond-total",
                            {"discnum": new.media.discnum, "totaldiscs": new.media.totaldiscs})
        # written back as a current file, re-loaded identically, second write byte-identical
        out = path + ".converted"
        try:
            new.dump(out)
            first = self.fs.get(out)
            again = self.new_obj()
            again.load(out)
            again.dump(out + "2")
            second = self.fs.get(out + "2")
        except Exception as e:
            if isinstance(e, HarnessError):
                raise
            raise Violation("C05", "C05.upgraded_object_round_trips", "upgraded-object-unwritable/treeinfo/pre-productmd-synth/%s" % exc_class(e), {"msg": str(e)[:160]})
        d = first_diff(self.observe(new), self.observe(again))
        if d:
            raise Violation("C05", "C05.upgraded_object_round_trips", "reload-after-upgrade-differs/treeinfo/pre-productmd-synth/%s" % diff_key(d), {"diff": d})
        hdr = inimod.as_dict(first.decode("utf-8")).get("header", {})
        if hdr.get("version") != self.CURRENT_VERSION or hdr.get("type") != self.HEADER_TYPE:
            raise Violation("C05", "C05.written_as_current", "upgrade-written-with-wrong-header/treeinfo/pre-productmd-synth", {"header": hdr})
        if not isinstance(new.tree.build_timestamp, float) and first != second:
            raise Violation("C05", "C05.conversion_happens_once", "second-write-differs/treeinfo/pre-productmd-synth", {})
        return "ok"

    # ---- C05: recorded reference behaviour of the pre-productmd reader (golden/treeinfo-pre-productmd.json) -------------
    _GOLDEN = [None]

    def op_ti_golden(self, op):
        """The release-specific rules of the header-less reader (RHEL 3/4/5/6 layouts, Fedora, CentOS, unknown families...)
        are documented nowhere but in the reader itself; the result recorded on the tree as fixed is the reference model:
        the same legacy file must still be converted to the same facts, and the converted object must survive the
        write / re-load / second-write cycle."""
        import os
        if self._GOLDEN[0] is None:
            from ..core import VERIF
            with open(os.path.join(VERIF, "golden", "treeinfo-pre-productmd.json")) as f:
                self._GOLDEN[0] = json.load(f)["cases"]
        cases = self._GOLDEN[0]
        c = cases[op.get("k", 0) % len(cases)]
        path = self.path(op)
        self.fs.put(path, c["doc"])
        CTX.fault("F8.older_format_on_disk")
        via = op.get("via", "path")
        new = self.new_obj()
        try:
            if via == "loads":
                new.loads(c["doc"])
            elif via == "handle":
                with open(path, "r") as fo:
                    new.load(fo)
            else:
                new.load(self.arg(path))
        except Exception as e:
            if isinstance(e, HarnessError):
                raise
            raise Violation("C05", "C05.older_document_accepted", "older-document-rejected/treeinfo/golden/%s" % exc_class(e), {"msg": str(e)[:160], "k": op.get("k")})
        got = observe_ti(new)
        if isinstance(got["tree"]["build_timestamp"], float):
            got["tree"]["build_timestamp"] = repr(got["tree"]["build_timestamp"])
        self.count("C05", ["golden", sorted(c["want"]["forest"])[:2], c["want"]["release"]["short"], c["want"]["tree"]["arch"] == "src"])
        d = first_diff(c["want"], got)
        if d:
            raise Violation("C05", "C05.upgrade_carries_same_facts", "upgrade-differs/treeinfo/golden/%s" % diff_key(d), {"diff": d, "k": op.get("k")})
        out = path + ".converted"
        try:
            new.dump(out)
            first = self.fs.get(out)
            again = self.new_obj()
            again.load(out)
            again.dump(out + "2")
            second = self.fs.get(out + "2")
        except Exception as e:
            if isinstance(e, HarnessError):
                raise
            raise Violation("C05", "C05.upgraded_object_round_trips", "upgraded-object-unwritable/treeinfo/golden/%s" % exc_class(e), {"msg": str(e)[:160], "k": op.get("k")})
        d = first_diff(self.observe(new), self.observe(again))
        if d:
            raise Violation("C05", "C05.upgraded_object_round_trips", "reload-after-upgrade-differs/treeinfo/golden/%s" % diff_key(d), {"diff": d, "k": op.get("k")})
        if self.cfg.get("focus") == "C17":
            # the file written for a tree that was READ from a pre-productmd file: its [general] section says what its own
            # authoritative sections say (family = [release] name, ...), whatever the old file called things
            doc = inimod.as_dict(first.decode("utf-8"))
            g, tr, rl = doc.get("general") or {}, doc.get("tree") or {}, doc.get("release") or {}
            self.count("C17", ["general-of-converted-tree", rl.get("short"), tr.get("arch") == "src"])
            CTX.probe("c17.general_of_a_tree_read_from_a_pre_productmd_file")
            for k, sec, opt in (("arch", tr, "arch"), ("platforms", tr, "platforms"), ("family", rl, "name"), ("version", rl, "version")):
                if sec.get(opt) != g.get(k):
                    raise Violation("C17", "C17.general_mirrors_authoritative_sections", "general.%s-differs-from-file-section" % k,
                                    {"field": k, "general": g.get(k), "section": sec.get(opt), "k": op.get("k")})
            if g.get("name") != "%s %s" % (rl.get("name"), rl.get("version")):
                raise Violation("C17", "C17.general_mirrors_authoritative_sections", "general.name-differs-from-file-section",
                                {"general": g.get("name"), "release": [rl.get("name"), rl.get("version")], "k": op.get("k")})
        if not isinstance(new.tree.build_timestamp, float) and first != second:
            raise Violation("C05", "C05.conversion_happens_once", "second-write-differs/treeinfo/golden", {"k": op.get("k")})
        return "ok"

    # ---- C17: a pre-productmd reader given only the compatibility sections ---------------------------------------
    def op_ti_legacy_general(self, op):
        s = self.slot(op)
        path = self.path(op)
        d = self.durable.get(path)
        if s is None or d is None or not d["clean"] or d["expected"] is None or d.get("legacy"):
            return "noop"
        exp = d["expected"]
        name = exp["release"]["name"]
        if any(name.startswith(p) for p in ("Red Hat", "Fedora", "CentOS", "EulerOS", "Subscription", "JBEAP")):
            return "noop-heuristic-name"
        if re.search(r"[-_]", exp["release"]["version"]):
            return "noop-version"
        if int(exp["tree"]["build_timestamp"]) == 0:
            return "noop-zero-timestamp"      # |ts| < 1 truncates to 0, which no reader takes for a timestamp
        if "-" in (inimod.as_dict(self.fs.get(path).decode("utf-8")).get("general", {}).get("variant") or "-"):
            return "noop-dashed-main-variant"     # pre-productmd files have no dashed variant names
        sections, _ = inimod.parse(self.fs.get(path).decode("utf-8"))
        keep = [(n, o) for n, o in sections if n == "general" or n.startswith("images-") or n in ("stage2", "checksums")]
        text = "".join("[%s]\n%s\n" % (n, "".join("%s = %s\n" % kv for kv in o)) for n, o in keep)
        scratch = "/sim/d/.general-only"
        self.fs.put(scratch, text)
        CTX.fault("F8.older_format_on_disk")
        try:
            new = self.new_obj()
            new.load(scratch)
        except Exception as e:
            if isinstance(e, HarnessError):
                raise
            raise Violation("C17", "C17.compat_sections_readable_as_pre_productmd", "general-only-file-rejected/%s" % exc_class(e),
                            {"msg": str(e)[:160]})
        finally:
            self.fs.remove(scratch)
        g = dict(keep[[n for n, _ in keep].index("general")][1])
        self.count("C17", ["pre-productmd", exp["tree"]["arch"] == "src", len(exp["images"])])
        facts = {"arch": (new.tree.arch, exp["tree"]["arch"]), "family": (new.release.name, exp["release"]["name"]),
                 "version": (new.release.version, exp["release"]["version"]),
                 "timestamp": (new.tree.build_timestamp, exp["tree"]["build_timestamp"]),
                 "variant": (sorted(new.variants.variants), [g.get("variant")])}
        for k, (got, want) in sorted(facts.items()):
            if got != want:
                raise Violation("C17", "C17.pre_productmd_reader_sees_same_tree", "pre-productmd-%s-differs" % k, {"got": got, "want": want})
        if exp["tree"]["arch"] not in new.tree.platforms:
            raise Violation("C17", "C17.pre_productmd_reader_sees_same_tree", "pre-productmd-platforms-lack-arch", {})
        return "ok"

    # ---- restart support ------------------------------------------------------------------------
    def op_restart(self, op):
        self._last_restart_path = self.path(op)
        d0 = self.durable.get(self._last_restart_path)
        if d0 is not None and d0.get("bare") and self.slot(op) is not None and self.fs.get(self._last_restart_path) is not None:
            return self._restart_bare(self.slot(op), op, self._last_restart_path, d0)
        s = self.slot(op)
        r = FormatMachine.op_restart(self, op)
        if r == "restarted":
            d = self.durable[self._last_restart_path]
            if any(v["parent"] is not None for v in d["expected"]["forest"].values()):
                CTX.probe("ti.child_variant_restarted")
        return r

    def model_from_observation(self, obs):
        return self.model_from_expected(None, obs)

    def model_from_expected(self, s, expected):
        d = self.durable.get(getattr(self, "_last_restart_path", None)) or {}
        if s is None:
            d = {}
        m = {"release": dict(expected["release"]),
             "base_product": dict(expected["base_product"]) if expected["base_product"] else dict((f, None) for f in BP_FIELDS),
             "tree": {"arch": expected["tree"]["arch"], "build_timestamp": expected["tree"]["build_timestamp"],
                      "platforms": list(expected["tree"]["platforms"])},
             "vars": {}, "top": [], "images": copy.deepcopy(expected["images"]), "stage2": dict(expected["stage2"]),
             "media": dict(expected["media"]), "checksums": copy.deepcopy(expected["checksums"])}
        aux = d.get("aux") or dict((uid, "L%d" % i) for i, uid in enumerate(sorted(expected["forest"])))
        self._aux = aux
        for uid, e in expected["forest"].items():
            vid = aux[uid]
            m["vars"][vid] = {"id": e["id"], "uid": uid, "name": e["name"], "type": e["type"], "paths": dict(e["paths"]),
                              "parent": "top" if e["parent"] is None else aux[e["parent"]],
                              "children": [aux[c] for c in e["children"]], "key": uid if e["parent"] is None else e["id"]}
        m["top"] = [aux[u] for u in sorted(expected["forest"]) if expected["forest"][u]["parent"] is None]
        return m

    def rebind(self, s):
        s.pool = {}
        if s.tainted:
            return
        seen = {}

        def walk(container):
            for v in container.variants.values():
                seen[v.uid] = v
                walk(v)
        walk(s.obj.variants)
        for uid, vid in getattr(self, "_aux", {}).items():
            if uid in seen:
                s.pool[vid] = seen[uid]


# =================================================================================================
def di_validity(m):
    t = m.get("timestamp")
    if isinstance(t, bool) or t is None:
        return INVALID, "timestamp:type"
    if not isinstance(t, float):
        return (INVALID, "timestamp:type") if not (isinstance(t, int) and t == 0) else (INVALID, "timestamp:blank")
    if not t:
        return INVALID, "timestamp:blank"
    if t != t or t in (float("inf"), float("-inf")):
        return UNSPEC, "timestamp:nonfinite"
    for f in ("description", "arch"):
        v = m.get(f)
        if not v:
            return INVALID, f + ":blank"
        if not isinstance(v, str):
            return INVALID, f + ":type"
        if v != v.strip() or "\n" in v or "\r" in v:
            return UNSPEC, f + ":not-single-line"
        if any(ch in v for ch in "\x0b\x0c\x1c\x1d\x1e\x85\u2028\u2029"):
            # one line for a text file, several for str.splitlines(): a writer may refuse it - if it writes it, it reads it back
            return UNSPEC, f + ":separator-lookalike"
    if m["description"][0] in "\"'" or m["description"][-1] in "\"'":
        return UNSPEC, "description:quoted"
    dn = m.get("disc_numbers")
    if not dn:
        return INVALID, "disc_numbers:blank"
    if not isinstance(dn, list):
        return INVALID, "disc_numbers:type"
    if dn != ["ALL"] and any(isinstance(x, bool) or not isinstance(x, int) for x in dn):
        return UNSPEC, "disc_numbers:elements"
    return VALID, ""


DI_FIELDS = ["timestamp", "description", "arch", "disc_numbers"]


@register_machine("M-DI")
class DIMachine(FormatMachine):
    FORMAT = "discinfo"
    ROUNDTRIP_PROP = "C04"
    KIND = "discinfo"
    FILE = ".discinfo"

    def new_obj(self):
        import productmd.discinfo
        return productmd.discinfo.DiscInfo()

    def keeps_roundtrip_oracle(self, why):
        return why.endswith(":separator-lookalike")

    def observe(self, obj):
        return dict((f, copy.deepcopy(getattr(obj, f))) for f in DI_FIELDS)

    def validity(self, s):
        return di_validity(s.model)

    def expected_loaded(self, s):
        return copy.deepcopy(s.model)

    def abstract(self, s):
        m = s.model
        return [m.get("disc_numbers") == ["ALL"], len(m.get("disc_numbers") or []) if isinstance(m.get("disc_numbers"), list) else -1,
                isinstance(m.get("timestamp"), float) and m["timestamp"] < 0, len(str(m.get("description")))]

    def abstract_expected(self, e):
        return [e["disc_numbers"] == ["ALL"], len(e["disc_numbers"]), e["timestamp"] < 0, len(e["description"]), e["arch"]]

    def op_di_init(self, op):
        s = Slot()
        s.obj = self.new_obj()
        s.model = dict((f, copy.deepcopy(getattr(s.obj, f))) for f in DI_FIELDS)
        self.slots[op.get("slot", 0)] = s
        for f in DI_FIELDS:
            if f in op:
                setattr(s.obj, f, copy.deepcopy(op[f]))
                s.model[f] = copy.deepcopy(op[f])
        return "ok"

    def op_di_inplace(self, op):
        """disc numbers appended to the object's own default list (no assignment)"""
        s = self.slot(op)
        if s is None or not isinstance(s.model.get("disc_numbers"), list) or not isinstance(s.obj.disc_numbers, list):
            return "noop"
        if op.get("clear"):
            del s.obj.disc_numbers[:]
            s.model["disc_numbers"] = []
        for n in op.get("append", []):
            s.obj.disc_numbers.append(n)
            s.model["disc_numbers"].append(n)
        return "ok"

    def op_di_set(self, op):
        s = self.slot(op)
        if s is None:
            return "noop"
        setattr(s.obj, op["field"], copy.deepcopy(dec(op["value"])))
        s.model[op["field"]] = copy.deepcopy(dec(op["value"]))
        return "ok"

    def file_invariants(self, s, text, op):
        if s.tainted or self.validity(s)[0] != VALID:
            return
        lines = text.split("\n")
        m = s.model
        if self.cfg.get("focus") == "C08" and m["disc_numbers"] != ["ALL"] and len(lines) >= 4:
            # "caller-ordered lists (... disc numbers) are content and keep their order" (C08)
            given = [str(i) for i in m["disc_numbers"]]
            if lines[3].split(",") != given and sorted(set(lines[3].split(","))) == sorted(set(given)):
                raise Violation("C08", "C08.caller_ordered_lists_keep_their_order", "caller-ordered-list-reordered/discinfo",
                                {"given": given[:8], "written": lines[3][:40]})
        if not self.watching("C04"):
            return
        want = [repr(m["timestamp"]), m["description"], m["arch"],
                "ALL" if m["disc_numbers"] == ["ALL"] else ",".join(str(i) for i in m["disc_numbers"])]
        self.count("C04", ["discinfo-lines", self.abstract(s)])
        if lines[:4] != want:
            raise Violation("C04", "C04.discinfo_lines", "discinfo-lines-differ", {"diff": first_diff(want, lines[:4])})
