"""C18 - a dump that fails validation leaves the destination untouched.

F1 (validator index enumerated inside each sampled run) + F2 (real invalid values
at nested locators), with and without a previous good copy at the destination.
"""
from .. import gen_ci
from ..pools import pick

ID = "C18"
LEVEL = "fault_enumeration"
RUNS = {"quick": 480, "thorough": 24000}
REQUIRED_FAULTS = ["F1.validator_raises", "F2.invalid_value_dump"]
MACHINES = ["M-CI"]


def gen_ci_case(rng, tier):
    K = gen_ci.gen_content(rng, max_vars=5 if tier == "quick" else 7)
    ops = gen_ci.build_ops(K, rng)
    path = "/sim/d/composeinfo.json"
    have_good = rng.random() < 0.75
    if have_good:
        ops.append({"op": "dump", "path": path})
        ops.append(gen_ci.valid_mutation(K, rng))
    cap = 64 if tier == "quick" else None
    ops.append({"op": "c18_enum", "path": path, "cap": cap})
    sites = gen_ci.poison_sites(K)
    for _ in range(rng.randint(1, 4)):
        site = pick(rng, sites)
        p, h = gen_ci.poison_ops(site)
        ops.append(gen_ci.valid_mutation(K, rng))
        ops.append(p)
        ops.append({"op": "dump", "path": path})
        ops.append(h)
        ops.append({"op": "dump", "path": path})
    ops.append({"op": "restart", "path": path, "via": pick(rng, ["path", "handle", "loads"]), "offset": rng.randint(0, 500)})
    return {"machine": "M-CI", "cfg": {"simset": pick(rng, ["insertion", "shuffle", "reverse", "sorted"])}, "ops": ops}


def generate(rng, tier, idx):
    return gen_ci_case(rng, tier)
