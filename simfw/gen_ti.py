"""Generators for M-TI / M-DI."""
from . import pools
from .pools import pick, subset, hexstr

TI_NAMES = ["Fedora", "Red Hat Enterprise Linux", "Spacewalk", "Ünïcode Linux", "CentOS Stream", "neutral os",
            "Storage Server ;EUS", "hash #tag os", "eq=colon: os"]
TI_SHORTS = ["F", "RHEL", "sw", "Fedora", "x1", ""]
TI_VERSIONS = ["20", "7.0", "7.1", "10.0.1", "Rawhide", "eln"]
TOP_IDS = ["Server", "Client", "Workstation", "BaseOS", "AppStream", "Fedora", "Tools", "RT", "WorkStation", "server"]      # two of them are child ids as well, two differ from another one only in letter case
CHILD_IDS = ["optional", "HighAvailability", "Tools", "RT", "SAP", "debug"]
PLATFORMS = ["xen", "ppc64le", "uefi", "Xen-PV", "xen pv"]      # (a blank INSIDE a name is part of the name)
IMAGE_NAMES = ["boot.iso", "kernel", "initrd", "Kernel", "efiboot.img", "upgrade", "boot iso", "BOOT.ISO", "x.y-z_0", "initrd.IMG"]
PATHS = ["Packages", ".", "repo", "src repo", "images/boot.iso", "a/b/c", "ünï/côde", "x" * 40, "Server/os",
         "a=b", "c:d", "semi;colon", "has # hash", "[bracket]", "with = and : both", "back\\slash", "UPPER/lower",
         "Storage Server ;EUS", "x #y", "a ; b # c", "tail ;", "AppStream/Packages/", "BaseOS/", "repo//", "./Packages", "a/../b", "", ""]


def gen_content(rng, max_top=3, max_children=3, src=None, float_ts=False):
    rel = {"name": pick(rng, TI_NAMES), "short": pick(rng, TI_SHORTS), "version": pick(rng, TI_VERSIONS), "is_layered": rng.random() < 0.3}
    if rng.random() < 0.12:
        # a release whose name already ends with its version ("openSUSE Leap 15.1", version "15.1")
        rel["name"] = "%s %s" % (rel["name"], rel["version"])
    bp = {"name": pick(rng, TI_NAMES), "short": pick(rng, TI_SHORTS), "version": pick(rng, ["7", "20", "Rawhide", "8.1"])}
    arch = "src" if (src if src is not None else rng.random() < 0.2) else pick(rng, pools.ARCHES + ["nosrc", "noarch"])
    ts = pools.anyint(rng, [1, 123456, 1410855216, 2 ** 33 + 1, -1, -1, -86400], big=0.08)
    if float_ts:
        ts = ts + rng.choice([0.0, 0.25, 0.5, 0.999])
        if int(ts) == 0:
            ts -= 1.0       # a stamp whose integer part is 0 is written as the 'blank' 0 and cannot be read back: outside every quantifier
    plats = subset(rng, PLATFORMS, 0, 3)
    if rng.random() < 0.5:
        plats.append(arch)
    K = {"release": rel, "base_product": bp, "tree": {"arch": arch, "build_timestamp": ts, "platforms": plats}, "vars": [],
         "images": {}, "stage2": {"mainimage": None, "instimage": None}, "media": {"discnum": None, "totaldiscs": None}, "checksums": {}}
    tops = rng.sample(TOP_IDS, rng.randint(1, max_top))
    n = 0
    for t in tops:
        dashed = rng.random() < 0.25
        if dashed:
            cid = pick(rng, CHILD_IDS)
            v = {"n": n, "id": cid, "uid": "%s-%s" % (t, cid), "type": "optional", "parent": None, "depth": 1, "dashed": True}
        else:
            v = {"n": n, "id": t, "uid": t, "type": pick(rng, ["variant", "variant", "optional"]), "parent": None, "depth": 1, "dashed": False}
        v["name"] = pick(rng, TI_NAMES + [v["id"]])
        v["paths"] = gen_paths(rng, arch)
        K["vars"].append(v)
        n += 1
    parents = [v for v in K["vars"] if not v["dashed"]]
    for _ in range(rng.randint(0, max_children)):
        cands = [v for v in K["vars"] if not v["dashed"] and v["depth"] < 3]
        if not cands:
            break
        p = pick(rng, cands)
        used = set(c["id"] for c in K["vars"] if c["parent"] == p["n"])
        free = [c for c in CHILD_IDS if c not in used and "%s-%s" % (p["uid"], c) not in set(x["uid"] for x in K["vars"])]
        if not free:
            continue
        cid = pick(rng, free)
        v = {"n": n, "id": cid, "uid": "%s-%s" % (p["uid"], cid), "type": pick(rng, pools.TI_VARIANT_TYPES), "parent": p["n"],
             "depth": p["depth"] + 1, "dashed": False, "name": pick(rng, TI_NAMES + [cid]), "paths": gen_paths(rng, arch)}
        K["vars"].append(v)
        n += 1
    # images per platform (only platforms that are listed; the tree arch only if listed explicitly)
    for platform in subset(rng, plats, 0, len(plats)):
        table = {}
        for name in subset(rng, IMAGE_NAMES, 0 if rng.random() < 0.35 else 1, 4):      # a platform may have an EMPTY table
            table[name] = "images/%s/%s" % (platform, name)
        K["images"][platform] = table
    if rng.random() < 0.5:
        K["stage2"]["mainimage"] = pick(rng, ["images/install.img", "LiveOS/squashfs.img"])
    if rng.random() < 0.2:
        K["stage2"]["instimage"] = "images/inst.img"        # with or without a mainimage
    if rng.random() < 0.4:
        tot = rng.randint(1, 5)
        K["media"] = {"discnum": rng.randint(1, tot), "totaldiscs": tot}
    for _ in range(rng.randint(0, 4)):
        t = pick(rng, ["md5", "sha1", "sha256", "sha512"])
        val = hexstr(rng, {"md5": 32, "sha1": 40, "sha256": 64, "sha512": 128}[t])
        if rng.random() < 0.12:
            val = pick(rng, [val[:16], val + "00", "0", "deadbeef", val.upper()])       # any text is a value: abbreviated, placeholder, upper case
        K["checksums"]["%s/%s" % (pick(rng, ["images", "repodata", "LiveOS", "Images/Sub", "x86_64/os/images", "tree/os", ".hidden", "-opt", "+plus", "~tilde", "0"]), pick(rng, IMAGE_NAMES + ["repomd.xml"]))] = [t, val]
    # entries planted directly in the public table (not through Checksums.add, which normalises): relative but
    # not in normal form - legal option names, must come back verbatim
    K["raw_checksums"] = {}
    if K["checksums"] and rng.random() < 0.2:
        # two distinct legal option names that spell the SAME file (the normal form is in the table already)
        k0 = pick(rng, sorted(K["checksums"]))
        K["raw_checksums"][pick(rng, ["./%s", "%s/.", "x/../%s"]) % k0 if rng.random() < 0.7 else k0.replace("/", "//", 1)] = ["sha256", hexstr(rng, 64)]
    if rng.random() < 0.3:
        for _ in range(rng.randint(1, 2)):
            key = pick(rng, ["./repodata/repomd.xml", "a//b.img", "x/../y.img", "dir/sub/", "./images/./pxeboot/vmlinuz"])
            K["raw_checksums"][key] = ["sha256", hexstr(rng, 64)]
    return K


def gen_paths(rng, arch):
    paths = {}
    kinds = subset(rng, pools.TI_PATH_KINDS, 0, 7)
    if arch == "src" and rng.random() < 0.6:
        kinds = [k for k in kinds if k not in ("packages", "repository")]
        if rng.random() < 0.8:
            kinds += ["source_packages", "source_repository"]
    for k in sorted(set(kinds)):
        paths[k] = pick(rng, PATHS)
    return paths


def build_ops(K, rng, slot=0, permute=True, vid_base=0):
    sl = {"slot": slot} if slot else {}
    init = {"op": "ti_init", "release": dict(K["release"]), "tree": {"arch": K["tree"]["arch"], "build_timestamp": K["tree"]["build_timestamp"]}}
    if K["release"]["is_layered"] or rng.random() < 0.2:
        init["base_product"] = dict(K["base_product"])
    init.update(sl)
    ops = [init]
    body = []
    plats = list(K["tree"]["platforms"])
    if K["tree"]["arch"] not in plats and rng.random() < 0.4:
        plats.append(K["tree"]["arch"])      # the tree arch listed by hand or left to the writer: the same platform set either way
    if permute:
        rng.shuffle(plats)
    if rng.random() < 0.5:
        body.append({"op": "ti_set", "sec": "tree", "field": "platforms", "value": plats})
        plat_first = [body[-1]]
        body = []
    else:
        plat_first = [{"op": "ti_platform", "value": p} for p in plats]
    news, rest = [], []
    order = list(range(len(K["vars"])))
    if permute:
        rng.shuffle(order)
    for i in order:
        v = K["vars"][i]
        early = dict((k, val) for k, val in v["paths"].items() if rng.random() < 0.5)
        news.append({"op": "ti_var_new", "vid": vid_base + v["n"], "id": v["id"], "uid": v["uid"], "name": v["name"], "type": v["type"], "paths": early})
        for k, val in v["paths"].items():
            if k not in early:
                rest.append({"op": "ti_var_path", "var": vid_base + v["n"], "kind": k, "value": val})
        rest.append({"op": "ti_var_add", "var": vid_base + v["n"], "into": "top" if v["parent"] is None else vid_base + v["parent"]})
    for platform, table in K["images"].items():
        if not table:
            rest.append({"op": "ti_image_table", "platform": platform})
        for name, path in table.items():
            rest.append({"op": "ti_image", "platform": platform, "name": name, "path": path})
    for f in ("mainimage", "instimage"):
        if K["stage2"][f]:
            rest.append({"op": "ti_stage2", "field": f, "value": K["stage2"][f]})
    if K["media"]["discnum"]:
        rest.append({"op": "ti_media", "discnum": K["media"]["discnum"], "totaldiscs": K["media"]["totaldiscs"]})
    for p, (t, v) in K["checksums"].items():
        dec = p
        if rng.random() < 0.3:
            dec = pick(rng, ["./" + p, p.replace("/", "//", 1), "x/../" + p])
        rest.append({"op": "ti_checksum_add", "path": dec, "ctype": t, "value": v})
    for p, (t, v) in K.get("raw_checksums", {}).items():
        rest.append({"op": "ti_checksum_raw", "path": p, "ctype": t, "value": v})
    if permute:
        rng.shuffle(rest)
    # image tables need their platform listed before validation only at dump time: order is free
    for o in plat_first + news + rest:
        o.update(sl)
        ops.append(o)
    return ops


def top_keys(K):
    return sorted(v["uid"] for v in K["vars"] if v["parent"] is None)


def valid_mutation(K, rng, slot=0):
    sl = {"slot": slot} if slot else {}
    r = rng.random()
    if K["vars"] and rng.random() < 0.12:
        # an offer the library refuses, in between (a child whose UID does not line up, an ID that is taken, the twin of a
        # child that is the top-level variant of another tree)
        o = {"op": "ti_var_offer", "into": pick(rng, K["vars"])["n"], "kind": pick(rng, ["misaligned", "taken-id", "foreign-twin", "foreign-twin"]),
             "n": rng.randint(0, 9)}
        o.update(sl)
        return o
    if r < 0.12:
        # an optional part of the description is taken back as a whole
        o = {"op": "ti_clear", "what": pick(rng, ["stage2", "media", "checksums"]), "inplace": rng.random() < 0.5}
    elif r < 0.22:
        # the same object is re-used for another architecture (one .treeinfo per arch)
        o = {"op": "ti_set", "sec": "tree", "field": "arch", "value": pick(rng, [a for a in pools.ARCHES if a != K["tree"]["arch"]])}
    elif r < 0.3:
        o = {"op": "ti_set", "sec": "tree", "field": "build_timestamp", "value": rng.randint(2, 10 ** 9)}
    elif r < 0.5:
        o = {"op": "ti_set", "sec": "release", "field": "name", "value": pick(rng, TI_NAMES) + " II"}
    elif r < 0.8 and K["vars"]:
        v = pick(rng, K["vars"])
        o = {"op": "ti_var_path", "var": v["n"], "kind": pick(rng, pools.TI_PATH_KINDS), "value": "new/" + pick(rng, PATHS)}
    else:
        o = {"op": "ti_checksum_add", "path": "new/file%d" % rng.randint(0, 3), "ctype": "sha256", "value": hexstr(rng, 64)}
    o.update(sl)
    return o


TI_POISON = [
    ("release", "name", [None, 5]),
    ("release", "version", [None, 7, "1.", "1..2", "1a", "7.x"]),
    ("release", "short", [None, 5]),
    ("release", "is_layered", [None, "true", 1]),
    ("tree", "arch", [None, "", 5]),
    ("tree", "build_timestamp", [None, "123", 0]),
]
TI_BP_POISON = [
    ("base_product", "name", [None, 5]),
    ("base_product", "version", [None, "1.", "7.x"]),
    ("base_product", "short", [None, 5]),
]
TI_VAR_POISON = [
    ("name", [None, 5]),
    ("id", [None, 5, "Ser-ver"]),
    ("type", [None, "layered-product", "Variant", ""]),
]


def poison_sites(K):
    sites = []
    for sec, f, bads in TI_POISON:
        for b in pools.with_generic(bads):
            sites.append({"kind": "sec", "sec": sec, "field": f, "bad": b, "good": K[sec][f]})
    if K["release"]["is_layered"]:
        for sec, f, bads in TI_BP_POISON:
            for b in pools.with_generic(bads):
                sites.append({"kind": "sec", "sec": sec, "field": f, "bad": b, "good": K[sec][f]})
    for v in K["vars"]:
        for f, bads in TI_VAR_POISON:
            for b in pools.with_generic(bads):
                sites.append({"kind": "var", "var": v["n"], "field": f, "bad": b, "good": v[f]})
        if v["parent"] is not None:
            sites.append({"kind": "var", "var": v["n"], "field": "uid", "bad": "Else-" + v["id"], "good": v["uid"]})
        for kind in ("packages", "identity", "debug_repository"):
            for b in (5, True, ["x.pem"], 1.5, {"__bytes__": "abc"}):
                sites.append({"kind": "var-path", "var": v["n"], "pkind": kind, "bad": b, "good": v["paths"].get(kind)})
    for platform, table in K["images"].items():
        for name, path in table.items():
            sites.append({"kind": "image", "platform": platform, "name": name, "bad": "/" + path, "good": path})
            for b in (5, None, ["boot.iso"]):
                # a path that is not text at all (what the validator makes of it is its business; the good copy is not)
                sites.append({"kind": "image", "platform": platform, "name": name, "bad": b, "good": path})
    for platform in sorted(K["images"]):
        for badname in (1, 1.5, None, True):
            # an image NAME that is not text, next to the ordinary ones
            sites.append({"kind": "image-name", "platform": platform, "name": badname})
    for platform in sorted(K["images"])[:1]:
        for badname in ("efi=boot.img", "a:b", "#hash", "[x]", "two\nlines"):
            # text the file syntax cannot carry as an option name (unspecified for writing; a REFUSAL must still be harmless)
            sites.append({"kind": "image-name", "platform": platform, "name": badname})
    for badpath in ("images/efi=boot.img", "c:/x", "# x"):
        sites.append({"kind": "checksum-abs", "path": badpath, "ctype": "sha256", "value": "0" * 64})
    sites.append({"kind": "image-unref", "platform": "nowhere"})
    for p in PLATFORMS + pools.ARCHES[:3]:
        # ...also a platform that OTHER trees of the same process list, but this one does not
        if p not in K["tree"]["platforms"] and p != K["tree"]["arch"] and p not in K["images"]:
            sites.append({"kind": "image-unref", "platform": p})
    arch = K["tree"]["arch"]
    if arch in K["images"] and arch in K["tree"]["platforms"]:
        # the tree arch has an image table but is dropped from the platform list
        sites.append({"kind": "sec", "sec": "tree", "field": "platforms", "bad": [p for p in K["tree"]["platforms"] if p != arch],
                      "good": list(K["tree"]["platforms"])})
    if K["stage2"]["mainimage"]:
        sites.append({"kind": "stage2", "field": "mainimage", "bad": "/" + K["stage2"]["mainimage"], "good": K["stage2"]["mainimage"]})
    else:
        sites.append({"kind": "stage2", "field": "mainimage", "bad": "/abs/install.img", "good": None})
    for b in (5, True, ["inst.img"], 1.5, {"__bytes__": "images/inst.img"}):
        sites.append({"kind": "stage2", "field": "instimage", "bad": b, "good": K["stage2"]["instimage"]})
    sites.append({"kind": "checksum-abs", "path": "/abs/file", "ctype": "sha256", "value": "0" * 64})
    for f in ("discnum", "totaldiscs"):
        for b in pools.with_generic(["1"]):
            sites.append({"kind": "media", "field": f, "bad": b, "good": K["media"]})
    return sites


def poison_ops(site, slot=0):
    sl = {"slot": slot} if slot else {}
    k = site["kind"]
    if k == "sec":
        p = {"op": "ti_set", "sec": site["sec"], "field": site["field"], "value": site["bad"]}
        h = {"op": "ti_set", "sec": site["sec"], "field": site["field"], "value": site["good"]}
    elif k == "var":
        p = {"op": "ti_var_set", "var": site["var"], "field": site["field"], "value": site["bad"]}
        h = {"op": "ti_var_set", "var": site["var"], "field": site["field"], "value": site["good"]}
    elif k == "var-path":
        p = {"op": "ti_var_path", "var": site["var"], "kind": site["pkind"], "value": site["bad"]}
        h = {"op": "ti_var_path", "var": site["var"], "kind": site["pkind"], "value": site["good"]}
    elif k == "image":
        p = {"op": "ti_image", "platform": site["platform"], "name": site["name"], "path": site["bad"]}
        h = {"op": "ti_image", "platform": site["platform"], "name": site["name"], "path": site["good"]}
    elif k == "image-name":
        p = {"op": "ti_image", "platform": site["platform"], "name": site["name"], "path": "images/odd.img"}
        h = {"op": "ti_image_name_del", "platform": site["platform"], "name": site["name"]}
    elif k == "image-unref":
        p = {"op": "ti_image", "platform": site["platform"], "name": "boot.iso", "path": "images/boot.iso"}
        h = {"op": "ti_image_del", "platform": site["platform"]}
    elif k == "stage2":
        p = {"op": "ti_stage2", "field": site["field"], "value": site["bad"]}
        h = {"op": "ti_stage2", "field": site["field"], "value": site["good"]}
    elif k == "checksum-abs":
        p = {"op": "ti_checksum_raw", "path": site["path"], "ctype": site["ctype"], "value": site["value"]}
        h = {"op": "ti_checksum_raw", "path": site["path"], "delete": True}
    else:
        good = site["good"]
        bad = {"discnum": good["discnum"] or 1, "totaldiscs": good["totaldiscs"] or 1}
        bad[site["field"]] = site["bad"]
        p = {"op": "ti_media", "discnum": bad["discnum"], "totaldiscs": bad["totaldiscs"]}
        h = {"op": "ti_media", "discnum": good["discnum"], "totaldiscs": good["totaldiscs"]}
    p.update(sl)
    h.update(sl)
    return p, h


# ---- discinfo ---------------------------------------------------------------------------------------
def gen_discinfo(rng):
    ts = pick(rng, [1410855216.123456, 1.0, 123456.75, -5.5, 1e-07, 1.7976931348623157e+308, 1234567890.0, 0.1 + 0.2])
    desc = pick(rng, ["Fedora 20", "Red Hat Enterprise Linux 7.0", "ünï côde", "a", "it's \"quoted\" inside", "x" * 80,
                      "#1 Linux 20", "; semi first", "ALL", "1,2,3", "0.5", "[general]", "x = y", "tab\tinside"])
    if rng.random() < 0.08:
        # characters str.splitlines() breaks on but a text file does not end a line with (unspecified for writing: rare)
        desc = pick(rng, ["ver\x0btical", "form\x0cfeed", "line\u2028sep", "next\x85line", "fs\x1cgs\x1d"])
    return {"timestamp": ts, "description": desc,
            "arch": pick(rng, pools.ARCHES + ["src"]),
            "disc_numbers": ["ALL"] if rng.random() < 0.4 else (sorted(subset(rng, [1, 2, 3, 4, 10, 11], 1, 4)) if rng.random() < 0.7 else
                                                                   pick(rng, [[1, 1], [2, 1, 2], [3, 2, 1], [10, 9], [1, 2, 2, 3], [0], [-1, 1]]))}


DI_POISON = [
    ("timestamp", [None, 0.0, 123, "1.0", 0]),
    ("description", [None, "", 5, " ", "\t", "a\nb", "a\r\nb", " padded "]),
    ("arch", [None, "", 5, " ", "x86_64\n", "a\nb"]),
    ("disc_numbers", [None, [], "ALL", (1, 2)]),
]


def di_poison_sites(K):
    return [{"field": f, "bad": b, "good": K[f]} for f, bads in DI_POISON for b in pools.with_generic([x for x in bads if not isinstance(x, tuple)])]
