"""Generators for M-RP / M-MO / M-XF."""
from . import pools
from .pools import pick, subset, hexstr

VARIANTS = ["Server", "Client", "Server-optional", "AppStream"]
NAMES = ["bash", "kernel", "python3-requests", "lib-2to3", "gcc-c++", "a", "java-1.8.0-openjdk", "x-1", "9base"]
VERSIONS = ["1", "4.3.30", "2.7.18~rc1", "1.0^git20200101", "5.14.0", "1_2+b"]
RELEASES = ["1", "2.el7", "1.fc20", "0.1.rc9.el7cp", "3.el8_4"]
BIN_ARCHES = ["x86_64", "noarch", "i686", "aarch64", "armhfp", "ppc64le", "s390x", "armv7hl"]
SIGKEYS = [None, "246110c1", "FD431D51", "aBcD1234", "508CE5E666534C2B", "A" * 40, "36c9e38bd2bb1f8a4e1f0c1b4a1f7a5e246110c1", "1", ""]


def nevra(rng, name=None, arch=None, epoch=None):
    name = name or pick(rng, NAMES)
    epoch = rng.choice([0, 0, 1, 2, 15]) if epoch is None else epoch
    return {"name": name, "epoch": epoch, "version": pick(rng, VERSIONS), "release": pick(rng, RELEASES),
            "arch": arch or pick(rng, BIN_ARCHES)}


def fmt(d, rng=None, decorate=True):
    s = "%s-%d:%s-%s.%s" % (d["name"], d["epoch"], d["version"], d["release"], d["arch"])
    if rng is not None and decorate and rng.random() < 0.12:
        # the same epoch, zero-padded ("00:", "01:", "015:"): the canonical key drops the padding
        s = "%s-%s:%s-%s.%s" % (d["name"], pick(rng, ["%02d", "%03d"]) % d["epoch"], d["version"], d["release"], d["arch"])
    if rng is not None and decorate:
        if rng.random() < 0.25:
            s += ".rpm"
        if rng.random() < 0.2:
            s = pick(rng, ["Packages/b/", "/abs/dir/", "./", "a/b-c/d.e/"]) + s
    return s


def bad_nevra(rng):
    d = nevra(rng)
    kind = pick(rng, ["no-epoch", "one-dash", "no-dot", "no-dash"])
    if kind == "no-epoch":
        return "%s-%s-%s.%s" % (d["name"].replace("-", ""), d["version"], d["release"], d["arch"])
    if kind == "one-dash":
        return "%s-%d:%s.%s" % (d["name"].replace("-", ""), d["epoch"], d["version"].replace("-", ""), d["arch"])
    if kind == "no-dot":
        return "%s-%d:%s-%s" % (d["name"].replace(".", ""), d["epoch"], d["version"].replace(".", "x"), d["release"].replace(".", "x"))
    return "%s:%s" % (d["name"].replace("-", ""), d["version"].replace("-", ""))


def rpm_add(rng, variants=VARIANTS, arches=None, invalid=0.25, srpms=None):
    arches = arches or pools.ARCHES[:3]
    srpms = srpms if srpms is not None else []
    category = pick(rng, ["binary", "binary", "debug", "source"])
    if category == "source":
        if srpms and rng.random() < 0.6:
            d = pick(rng, srpms)
        else:
            d = nevra(rng, arch=pick(rng, ["src", "src", "nosrc"]))
            srpms.append(d)
        op = {"op": "add", "variant": pick(rng, variants), "arch": pick(rng, arches), "nevra": fmt(d, rng),
              "path": "%s/source/SRPMS/%s.rpm" % (pick(rng, variants), d["name"]), "sigkey": pick(rng, SIGKEYS), "category": "source"}
    else:
        if not srpms or rng.random() < 0.3:
            srpms.append(nevra(rng, arch="src"))
        sd = pick(rng, srpms)
        name = sd["name"] + pick(rng, ["", "-libs", "-devel", "-debuginfo" if category == "debug" else "-doc"])
        d = dict(sd, name=name, arch=pick(rng, BIN_ARCHES))
        op = {"op": "add", "variant": pick(rng, variants), "arch": pick(rng, arches), "nevra": fmt(d, rng),
              "path": "%s/os/Packages/%s/%s.rpm" % (pick(rng, variants), name[0], name), "sigkey": pick(rng, SIGKEYS),
              "category": category, "srpm_nevra": fmt(sd, rng)}
    if rng.random() < invalid:
        k = pick(rng, ["arch", "arch-src", "category", "abs-path", "empty-path", "nevra", "srpm-given", "srpm-missing", "contradict", "srpm-bad"])
        if k == "arch":
            op["arch"] = pick(rng, ["", "x86", "X86_64", "sparc65"])
        elif k == "arch-src":
            op["arch"] = pick(rng, ["src", "nosrc"])
        elif k == "category":
            op["category"] = pick(rng, ["bin", "Binary", "", None, "package", "package"])    # 'package': the 0.3 name of 'binary'
            if op["category"] == "package" and "srpm_nevra" not in op:
                op["category"] = "bin"
        elif k == "abs-path":
            op["path"] = "/" + op["path"]
        elif k == "empty-path":
            op["path"] = ""
        elif k == "nevra":
            op["nevra"] = bad_nevra(rng)
        elif k == "srpm-given" and op["category"] == "source":
            op["srpm_nevra"] = op["nevra"]
        elif k == "srpm-missing" and op["category"] != "source":
            op.pop("srpm_nevra", None)
        elif k == "contradict":
            if op["category"] == "source":
                op["category"] = "binary"
                op["srpm_nevra"] = op["nevra"]
            else:
                op["category"] = "source"
                op.pop("srpm_nevra", None)
        elif k == "srpm-bad" and "srpm_nevra" in op:
            op["srpm_nevra"] = bad_nevra(rng)
    return op


MODULE_NAMES = ["nodejs", "postgresql", "perl-App-cpanminus", "389-ds", "virt"]
STREAMS = ["10", "9.6", "rhel", "1.4", "master"]


def _module_rpm(rng):
    """an entry of a module's RPM list: the caller's string, kept verbatim - whatever its spelling"""
    d = nevra(rng)
    r = rng.random()
    if r < 0.6:
        return fmt(d)
    if r < 0.7:
        return "%s-%s-%s.%s" % (d["name"], d["version"], d["release"], d["arch"])            # no epoch
    if r < 0.8:
        return fmt(d, rng)                                                                       # padded epoch / .rpm / directory
    if r < 0.9:
        return "Packages/%s/%s-%s-%s.%s.rpm" % (d["name"][0], d["name"], d["version"], d["release"], d["arch"])
    return pick(rng, ["pkg1", "x", "kernel", "a b", "ünï-0:1-1.noarch"])


def module_add(rng, variants=VARIANTS, arches=None, invalid=0.25, memo=None):
    arches = arches or pools.ARCHES[:3] + ["src"]
    parts = [pick(rng, MODULE_NAMES), pick(rng, STREAMS)]
    n = rng.choice([2, 3, 4])
    if n >= 3:
        parts.append(pick(rng, ["20180816142114", "820181213140247", "1", "2.1", "rolling", "8040020210520", "v1", "1-2"]))
    if n >= 4:
        parts.append(pick(rng, ["6c81f848", "9edba152", "c0ffee42", "C0FFEE42", "x", "00000000", "a.b"]))
    v0, a0, uid0 = pick(rng, variants), pick(rng, arches), ":".join(parts)
    if memo is not None:
        if memo and rng.random() < 0.4:
            # the same module filed again (another category, more RPMs): its RPM list is EXTENDED, in caller order
            v0, a0, uid0 = pick(rng, memo)
            parts = uid0.split(":")
        else:
            memo.append((v0, a0, uid0))
    op = {"op": "add", "variant": v0, "arch": a0, "uid": (uid0 if rng.random() < 0.88 else pick(rng, ["%s/%s/" % (v0, a0), "modules/", "./"]) + uid0),
          "koji_tag": pick(rng, ["module-%s-%s" % (parts[0], parts[1]), "tag-1"]),
          "modulemd_path": "%s/%s/os/repodata/modules.yaml.gz" % (pick(rng, variants), pick(rng, arches)),
          "category": pick(rng, ["binary", "debug", "source"]),
          "rpms": ([_module_rpm(rng) for _ in range(rng.randint(0, 3))] if rng.random() < 0.5 else
                   list(pick(rng, [[], ["a-0:1-1.x86_64"], ["b-0:1-1.noarch", "c-2:2-1.noarch"]])))}
    if rng.random() < 0.2:
        op["rpms_as"] = "tuple"
    if rng.random() < invalid:
        k = pick(rng, ["arch", "category", "uid-nocolon", "uid-nonstr", "uid-5", "uid-empty-part", "abs", "empty-path", "rpms", "koji", "variant"])
        if k == "arch":
            op["arch"] = pick(rng, ["", "x86", "X86_64"])
        elif k == "category":
            op["category"] = pick(rng, ["bin", "", None])
        elif k == "uid-nocolon":
            op["uid"] = parts[0]
        elif k == "uid-nonstr":
            op["uid"] = pick(rng, [None, 5, ["a:b"]])
        elif k == "uid-5":
            op["uid"] = "a:b:c:d:e"
        elif k == "uid-empty-part":
            op["uid"] = pick(rng, ["a::b", ":b", "a:b:"])
        elif k == "abs":
            op["modulemd_path"] = "/" + op["modulemd_path"]
        elif k == "empty-path":
            op["modulemd_path"] = ""
        elif k == "rpms":
            op["rpms"] = pick(rng, [None, "a-0:1-1.x86_64", 5, {"a": 1}])
        elif k == "koji":
            op["koji_tag"] = ""
        elif k == "variant":
            op["variant"] = ""
    return op


def extra_add(rng, variants=VARIANTS, arches=None, invalid=0.25):
    arches = arches or pools.ARCHES[:3]
    v = pick(rng, variants)
    a = pick(rng, arches)
    op = {"op": "add", "variant": v, "arch": a,
          "path": pick(rng, ["%s/%s/os/GPL" % (v, a), "%s/%s/os2/EULA" % (v, a), "%s/%s/osx" % (v, a), "README", "%s/%s/os/a/b/c" % (v, a),
                             "compose/%s/%s/os/GPL" % (v, a), "%s/%s/os/%s/%s/os/LICENSE" % (v, a, v, a)]),
          # (a size that is not an integer is outside the documented domain: rare, so that most documents stay inside it)
          "size": rng.choice([{"__float__": "inf"}, {"__float__": "-inf"}, 1.5]) if rng.random() < 0.04 else rng.choice([0, 1, 18092, 2 ** 33, 2 ** 64 + 1]),
          "checksums": dict((t, hexstr(rng, 8)) for t in subset(rng, pools.CHECKSUM_TYPES + ["SHA256", "Md5", "sha3_256", "x-y"], 0, 3))}
    if rng.random() < invalid:
        k = pick(rng, ["arch", "abs", "empty", "checksums", "variant"])
        if k == "arch":
            op["arch"] = pick(rng, ["", "x86", "X86_64"])
        elif k == "abs":
            op["path"] = "/" + op["path"]
        elif k == "empty":
            op["path"] = ""
        elif k == "checksums":
            op["checksums"] = pick(rng, [None, "abc", ["md5", "x"], 5])
        elif k == "variant":
            op["variant"] = ""
    return op


def dump_for_tree_op(rng, variants=VARIANTS, arches=None):
    arches = arches or pools.ARCHES[:3]
    v = pick(rng, variants)
    a = pick(rng, arches)
    base = pick(rng, ["%s/%s/os" % (v, a), "%s/%s/os/" % (v, a), "%s/%s" % (v, a), "%s/%s/o" % (v, a), "elsewhere", "", "%s/%s/os//" % (v, a),
                      "os", a, "%s/os" % a, "compose", "compose/%s" % v, "GPL", "/%s/%s/os" % (v, a),
                      # ...exactly a stored file path (with and without trailing slashes), a stored path plus one character
                      "%s/%s/os/GPL" % (v, a), "%s/%s/os/GPL/" % (v, a), "README", "README//", "%s/%s/osx" % (v, a), "%s/%s/os/GPLx" % (v, a)])
    return {"op": "dump_for_tree", "variant": v, "arch": a, "basepath": base}


ADDERS = {"M-RP": rpm_add, "M-MO": module_add, "M-XF": extra_add}
FILES = {"M-RP": "/sim/d/rpms.json", "M-MO": "/sim/d/modules.json", "M-XF": "/sim/d/extra_files.json"}


def history(rng, machine, n, invalid=0.25, restarts=0.0, slot=0):
    """init + n adds (+ dump/restart interleaved with probability `restarts` per step)."""
    rel = {"short": pick(rng, pools.SHORTS), "version": pick(rng, pools.VERSIONS_NUM)}
    ops = [{"op": "mf_init", "compose": pools.compose(rng, rel)}]
    variants = subset(rng, VARIANTS, 1, 3)
    arches = subset(rng, pools.ARCHES, 1, 3)
    if rng.random() < 0.25:
        # any name of the documented table is a legal tree architecture, not only the handful in everyday use
        arches.append(pick(rng, [a for a in pools.RPM_ARCHES_DOC if a not in ("src", "nosrc")]))
    srpms = []
    memo = []
    path = FILES[machine]
    for _ in range(n):
        if machine == "M-RP":
            ops.append(rpm_add(rng, variants, arches, invalid, srpms))
        elif machine == "M-MO":
            ops.append(module_add(rng, variants, arches + (["src"] if rng.random() < 0.2 else []), invalid, memo))
        else:
            ops.append(extra_add(rng, variants, arches, invalid))
            if rng.random() < 0.25:
                ops.append(dump_for_tree_op(rng, variants, arches))
        if restarts and rng.random() < restarts:
            ops.append({"op": "dump", "path": path})
            if rng.random() < 0.25:
                ops.append({"op": "reload_same", "path": path})
            else:
                ops.append({"op": "restart", "path": path, "via": pick(rng, ["path", "handle", "loads"]), "offset": rng.randint(0, 500)})
        if rng.random() < 0.06:
            ops.append({"op": "mf_del_variant", "variant": pick(rng, variants)})
        elif rng.random() < 0.08:
            ops.append({"op": "mf_lookup", "variant": pick(rng, variants + ["Missing"]), "arch": pick(rng, arches + ["ia64"]),
                        "how": subset(rng, ["item", "table", "tree"], 1, 3)})
    if slot:
        for o in ops:
            o["slot"] = slot
    return ops


def rpms_canonical_history(rng, n_srpms=4):
    """Valid Rpms.add history in which every (variant, source package) has ONE source entry (same path and
    signing key under every arch) and the source RPM is filed under every arch that lists its binaries:
    the layout a 0.3 -> 1.x upgrade produces, so a 0.3 down-conversion is its exact inverse."""
    rel = {"short": pick(rng, pools.SHORTS), "version": pick(rng, pools.VERSIONS_NUM)}
    ops = [{"op": "mf_init", "compose": pools.compose(rng, rel)}]
    adds = []
    # the same source packages are shipped by several variants (a parent and its 'Parent-child' variant among them), each
    # with or without its own source entry
    shared = [nevra(rng, arch=pick(rng, ["src", "src", "nosrc"])) for _ in range(rng.randint(2, n_srpms + 1))]
    for variant in subset(rng, VARIANTS, 1, 3):
        arches = subset(rng, pools.ARCHES, 1, 3)
        for sd in subset(rng, shared, 1, min(n_srpms, len(shared))):
            skey = pick(rng, SIGKEYS)
            spath = "%s/source/SRPMS/%s/%s.src.rpm" % (variant, sd["name"][0], sd["name"])
            has_src = rng.random() < 0.8
            for arch in subset(rng, arches, 1, len(arches)):
                for sub in subset(rng, ["", "-libs", "-devel", "-debuginfo"], 1, 3):
                    d = dict(sd, name=sd["name"] + sub, arch=pick(rng, BIN_ARCHES))
                    adds.append({"op": "add", "variant": variant, "arch": arch, "nevra": fmt(d, rng), "sigkey": pick(rng, SIGKEYS),
                                 "path": "%s/%s/os/Packages/%s.rpm" % (variant, arch, d["name"]),
                                 "category": "debug" if sub == "-debuginfo" else "binary", "srpm_nevra": fmt(sd, rng)})
                if has_src:
                    adds.append({"op": "add", "variant": variant, "arch": arch, "nevra": fmt(sd, rng), "sigkey": skey,
                                 "path": spath, "category": "source"})
    rng.shuffle(adds)
    return ops + adds
