"""C07: damage to a stored document between the write and the next restart.

corruptions(machine, text, rng_seed) -> list of {"key", "data" (bytes), "must": reject|accept|weak}
  reject : the property's own quantifier - one field out of its documented domain (excluding values the reader
           documents as coerced), header type of another format (>= 1.1), mangled version, required key / section
           deleted  -> load must raise (any exception)
  accept : the < 1.1 side of the type gate - must NOT be rejected for the type alone
  weak   : unstructured damage (byte flips, truncation, duplicated block, garbage, non-UTF-8) - load raises, or the
           returned object passes the independent constraint table and can be dumped
"""
import copy
import json
import random

from . import ini as inimod
from . import pools

TYPES = {"M-CI": "productmd.composeinfo", "M-IM": "productmd.images", "M-RP": "productmd.rpms",
         "M-MO": "productmd.modules", "M-XF": "productmd.extra_files", "M-TI": "productmd.treeinfo"}
PAYLOAD_KEY = {"M-IM": "images", "M-RP": "rpms", "M-MO": "modules", "M-XF": "extra_files", "M-CI": "variants"}

_DEL = object()


def _edit(doc, path, value):
    d = copy.deepcopy(doc)
    cur = d
    for k in path[:-1]:
        cur = cur[k]
    if value is _DEL:
        del cur[path[-1]]
    else:
        cur[path[-1]] = value
    return d


def _dumpj(doc):
    return json.dumps(doc, indent=4, sort_keys=True, separators=(",", ": ")).encode("utf-8")


def json_structured(machine, doc):
    out = []

    def add(key, path, value, must="reject"):
        try:
            out.append({"key": key, "data": _dumpj(_edit(doc, path, value)), "must": must})
        except (KeyError, IndexError, TypeError):
            pass
    own = TYPES[machine]
    other = [t for t in sorted(TYPES.values()) if t != own][0]
    add("header.type:swapped", ["header", "type"], other)
    add("header.type:deleted", ["header", "type"], _DEL)
    d10 = _edit(doc, ["header", "type"], other)
    d10["header"]["version"] = "1.0"
    # below 1.1 the type is not part of the format: the property neither demands rejection nor acceptance
    out.append({"key": "header.type:swapped@1.0", "data": _dumpj(d10), "must": "weak"})
    d11 = _edit(doc, ["header", "type"], other)
    d11["header"]["version"] = "1.1"
    out.append({"key": "header.type:swapped@1.1", "data": _dumpj(d11), "must": "reject"})
    d11b = copy.deepcopy(doc)
    d11b["header"]["version"] = "1.1"
    out.append({"key": "header.version:1.1-own-type", "data": _dumpj(d11b), "must": "accept"})
    for i, v in enumerate(["1", "1.2.3", "a.b", "", "1.x", 12, None, "1.-2"]):
        add("header.version:mangled", ["header", "version"], v)
    add("header:deleted", ["header"], _DEL)
    add("header.version:deleted", ["header", "version"], _DEL)
    add("payload:deleted", ["payload"], _DEL)
    add("payload.compose:deleted", ["payload", "compose"], _DEL)
    add("payload.%s:deleted" % PAYLOAD_KEY[machine], ["payload", PAYLOAD_KEY[machine]], _DEL)
    for f in ("id", "type", "date", "respin"):
        add("compose.%s:deleted" % f, ["payload", "compose", f], _DEL)
    for f, bads in (("id", [None, 123, "", "abc"]), ("date", [None, 20150522, "2015", "2015052a", "2015052", "201552", "20150522 "]), ("type", [None, "prod", "Production"]),
                    ("respin", [None, "0", 1.5]), ("label", pools.LABELS_BAD)):
        for b in bads:
            add("compose.%s:domain" % f, ["payload", "compose", f], b)
    p = doc["payload"]
    if machine == "M-CI":
        add("release:deleted", ["payload", "release"], _DEL)
        for f in ("name", "version", "short"):
            add("release.%s:deleted" % f, ["payload", "release", f], _DEL)
        for f, bads in (("name", [None, 5]), ("version", [None, "", "1.", "7.x"]), ("short", [None, 5]), ("type", [None, "beta", 5])):
            for b in bads:
                add("release.%s:domain" % f, ["payload", "release", f], b)
        if "base_product" in p:
            add("base_product:deleted", ["payload", "base_product"], _DEL)
            for f in ("name", "version", "short"):
                add("base_product.%s:deleted" % f, ["payload", "base_product", f], _DEL)
            for f, bads in (("name", [5]), ("version", [None, "1."]), ("short", [5]), ("type", ["beta"])):
                for b in bads:
                    add("base_product.%s:domain" % f, ["payload", "base_product", f], b)
        for uid in sorted(p["variants"]):
            v = p["variants"][uid]
            base = ["payload", "variants", uid]
            for f in ("id", "uid", "name", "type", "arches", "paths"):
                add("variant.%s:deleted" % f, base + [f], _DEL)
            for f, bads in (("id", ["Ser-ver", None, ""]), ("uid", ["zzz-" + uid]), ("name", ["", None]), ("type", ["foo", None]), ("arches", [[]])):
                for b in bads:
                    add("variant.%s:domain" % f, base + [f], b)
            if v.get("variants"):
                child_uid = "%s-%s" % (uid, sorted(v["variants"])[0])
                add("variant.child-entry:deleted", ["payload", "variants", child_uid], _DEL)
                # the parent no longer lists its children: their records are orphans (top-level entries with a child's UID)
                add("variant.children-list:deleted", base + ["variants"], _DEL)
                add("variant.children-list:emptied", base + ["variants"], [])
                if child_uid in p["variants"]:
                    add("variant.child-arch:not-in-parent", ["payload", "variants", child_uid, "arches"],
                        sorted(set(p["variants"][child_uid]["arches"]) | set(["zz-foreign"])))
                    # ...and an arch that an ANCESTOR further up (or any other variant of the compose) has, but the parent lacks
                    elsewhere = sorted(set(a for w in p["variants"].values() for a in w.get("arches", [])) - set(v.get("arches", [])))
                    for a in elsewhere[:4]:
                        add("variant.child-arch:not-in-parent-but-elsewhere", ["payload", "variants", child_uid, "arches"],
                            sorted(set(p["variants"][child_uid]["arches"]) | set([a])))
                    for a in pools.foreign_arches(v.get("arches", []))[1:3]:
                        add("variant.child-arch:not-in-parent-lookalike", ["payload", "variants", child_uid, "arches"],
                            sorted(set(p["variants"][child_uid]["arches"]) | set([a])))
            if v.get("type") == "layered-product":
                add("variant.release:deleted", base + ["release"], _DEL)
                add("variant.release.version:domain", base + ["release", "version"], "1.")
                add("variant.release.type:domain", base + ["release", "type"], "beta")
    if machine == "M-IM":
        cells = p["images"]
        for variant in sorted(cells):
            for arch in sorted(cells[variant]):
                # the cell's arch key itself
                d = copy.deepcopy(doc)
                d["payload"]["images"][variant]["src"] = d["payload"]["images"][variant].pop(arch)
                out.append({"key": "cell.arch:src", "data": _dumpj(d), "must": "reject"})
                d = copy.deepcopy(doc)
                d["payload"]["images"][variant]["sparc65"] = d["payload"]["images"][variant].pop(arch)
                out.append({"key": "cell.arch:unknown", "data": _dumpj(d), "must": "reject"})
                for i, img in enumerate(cells[variant][arch]):
                    base = ["payload", "images", variant, arch, i]
                    for f in ("path", "mtime", "size", "volume_id", "type", "arch", "disc_number", "disc_count", "checksums",
                              "implant_md5", "bootable", "subvariant"):
                        add("image.%s:deleted" % f, base + [f], _DEL)
                    for f, bads in (("path", ["", None, 5]), ("mtime", ["abc", None]), ("size", [None, "x"]), ("volume_id", ["", 5]),
                                    ("type", ["DVD", None, "iso"]), ("format", ["ISO", "dvd", 5]), ("arch", ["", None]),
                                    ("disc_number", [None, "x"]), ("disc_count", [None, "y"]), ("checksums", [{}, None, []]),
                                    ("implant_md5", ["xyz", "A" * 32, 5]), ("subvariant", [None, 5]), ("unified", ["false", 0])):
                        for b in bads:
                            add("image.%s:domain" % f, base + [f], b)
                    if not img.get("unified"):
                        add("image.additional_variants:non-unified", base + ["additional_variants"], ["Server"])
                    else:
                        add("image.additional_variants:domain", base + ["additional_variants"], "Server")
        # Images.add is applied to every loaded image: a colliding pair (equal identity, other checksums) anywhere
        flat = [(v, a, i) for v in sorted(cells) for a in sorted(cells[v]) for i in range(len(cells[v][a]))]
        for n, (v, a, i) in enumerate(flat[:6]):
            for where in ("same-cell", "other-arch", "other-variant", "other-arch/same-path", "other-variant/same-path"):
                d = copy.deepcopy(doc)
                dup = copy.deepcopy(cells[v][a][i])
                dup["checksums"] = dict((k, str(val) + "0") for k, val in dup["checksums"].items())
                if not where.endswith("same-path"):
                    dup["path"] = dup["path"] + ".dup"
                c = d["payload"]["images"]
                if where == "same-cell":
                    c[v][a].append(dup)
                elif where.startswith("other-arch"):
                    other_arch = [x for x in ("ia64", "x86_64", "ppc64le") if x != a][0]
                    c[v].setdefault(other_arch, []).append(dup)
                else:
                    c.setdefault("OtherVariant", {}).setdefault(a, []).append(dup)
                out.append({"key": "image.identity:colliding-pair/" + where, "data": _dumpj(d), "must": "reject"})
    return out


def _render_ini(sections):
    return "".join("[%s]\n%s\n" % (n, "".join("%s = %s\n" % kv for kv in o)) for n, o in sections).encode("utf-8")


def ini_structured(text):
    sections, _ = inimod.parse(text)
    out = []

    def variant(key, fn, must="reject"):
        secs = [(n, list(o)) for n, o in sections]
        r = fn(secs)
        if r is None:
            return
        out.append({"key": key, "data": _render_ini(r), "must": must})

    def set_opt(sec, opt, val):
        def fn(secs):
            for n, o in secs:
                if n == sec:
                    for i, (k, v) in enumerate(o):
                        if k == opt:
                            o[i] = (k, val)
                            return secs
            return None
        return fn

    def del_opt(sec, opt):
        def fn(secs):
            for n, o in secs:
                if n == sec:
                    for i, (k, v) in enumerate(o):
                        if k == opt:
                            del o[i]
                            return secs
            return None
        return fn

    def del_sec(sec):
        def fn(secs):
            r = [(n, o) for n, o in secs if n != sec]
            return r if len(r) != len(secs) else None
        return fn

    def add_opt(sec, opt, val):
        def fn(secs):
            for n, o in secs:
                if n == sec:
                    o.append((opt, val))
                    return secs
            return None
        return fn
    d = dict((n, dict(o)) for n, o in sections)
    variant("header.type:swapped", set_opt("header", "type", "productmd.composeinfo"))
    variant("header.type:deleted", del_opt("header", "type"))

    def swapped_10(secs):
        r = set_opt("header", "type", "productmd.images")(secs)
        return set_opt("header", "version", "1.0")(r) if r else None
    variant("header.type:swapped@1.0", swapped_10, "weak")

    def swapped_11(secs):
        r = set_opt("header", "type", "productmd.images")(secs)
        return set_opt("header", "version", "1.1")(r) if r else None
    variant("header.type:swapped@1.1", swapped_11)
    variant("header.version:1.1-own-type", set_opt("header", "version", "1.1"), "accept")
    for v in ["1", "a.b", "1.2.3", "1.x", ""]:
        variant("header.version:mangled", set_opt("header", "version", v))
    variant("release:deleted", del_sec("release"))
    variant("release.name:deleted", del_opt("release", "name"))
    variant("release.version:deleted", del_opt("release", "version"))
    for v in ["1.", "7.x", "1..2"]:
        variant("release.version:domain", set_opt("release", "version", v))
    variant("release.is_layered:domain", add_opt("release", "is_layered", "maybe") if "is_layered" not in d.get("release", {}) else set_opt("release", "is_layered", "maybe"))
    if "base_product" in d:
        variant("base_product:deleted", del_sec("base_product"))
        variant("base_product.version:domain", set_opt("base_product", "version", "1."))
        variant("base_product.name:deleted", del_opt("base_product", "name"))
    for f in ("arch", "platforms", "build_timestamp"):
        variant("tree.%s:deleted" % f, del_opt("tree", f))
    for v in ["abc", "0", ""]:
        variant("tree.build_timestamp:domain", set_opt("tree", "build_timestamp", v))
    variant("tree.arch:domain", set_opt("tree", "arch", ""))
    if d.get("tree", {}).get("variants"):
        variant("tree.variants:ghost", set_opt("tree", "variants", d["tree"]["variants"] + ",Ghost"))
    for n, o in sections:
        if n.startswith("variant-") or n.startswith("addon-"):
            od = dict(o)
            variant("variant-section:deleted", del_sec(n))
            for f in ("id", "uid", "name", "type"):
                variant("variant.%s:deleted" % f, del_opt(n, f))
            variant("variant.type:domain", set_opt(n, "type", "foo"))
            variant("variant.type:domain-composeinfo-only-value", set_opt(n, "type", "layered-product"))
            variant("variant.type:domain-case", set_opt(n, "type", "Variant"))
            variant("variant.id:domain", set_opt(n, "id", "a-b"))
            if "parent" in od:
                variant("variant.child-uid:misaligned", set_opt(n, "uid", "Else-" + od.get("id", "x")))
        if n.startswith("images-"):
            for k, v in o:
                variant("images.path:absolute", set_opt(n, k, "/" + v))
    plats = d.get("tree", {}).get("platforms", "")
    arch = d.get("tree", {}).get("arch")
    if arch and ("images-" + arch) in d and arch in plats.split(","):
        # the tree arch has an image table but is no longer listed: "unreferenced image platform"
        variant("tree.platforms:omits-arch-that-has-images", set_opt("tree", "platforms", ",".join(p for p in plats.split(",") if p != arch)))

    def unref(secs):
        secs.append(("images-nowhere", [("boot.iso", "images/boot.iso")]))
        return secs
    variant("images.platform:unreferenced", unref)
    if "stage2" in d and "mainimage" in d["stage2"]:
        variant("stage2.mainimage:absolute", set_opt("stage2", "mainimage", "/" + d["stage2"]["mainimage"]))
    if "checksums" in d:
        for k, v in d["checksums"].items():
            def absfn(secs, k=k, v=v):
                for n, o in secs:
                    if n == "checksums":
                        for i, (kk, vv) in enumerate(o):
                            if kk == k:
                                o[i] = ("/" + k, v)
                                return secs
                return None
            variant("checksums.path:absolute", absfn)
            variant("checksums.value:two-colons", set_opt("checksums", k, v + ":x"))
    if "media" in d:
        variant("media.discnum:domain", set_opt("media", "discnum", "x"))
        variant("media.totaldiscs:deleted", del_opt("media", "totaldiscs"))
    return out


def discinfo_structured(text):
    lines = text.split("\n")
    out = []

    def v(key, new_lines, must="reject"):
        out.append({"key": key, "data": "\n".join(new_lines).encode("utf-8"), "must": must})
    for bad in ["abc", "0", "", "0.0", "1,5"]:
        v("timestamp:domain", [bad] + lines[1:])
    v("description:blank", [lines[0], ""] + lines[2:])
    v("arch:blank", lines[:2] + [""] + lines[3:])
    v("disc_numbers:domain", lines[:3] + ["a,b"])
    v("disc_numbers:domain", lines[:3] + ["1,,2"])
    v("lines:truncated", lines[:2])
    v("lines:truncated", lines[:1])
    v("lines:truncated", [])
    return out


def unstructured(data, seed, n=24):
    rng = random.Random(seed)
    out = []
    L = len(data)
    if L == 0:
        return out
    for i in range(n):
        kind = ["flip", "flip", "flip", "truncate", "dup", "garbage", "nonutf8", "delete-line", "swap-lines"][i % 9]
        b = bytearray(data)
        if kind == "flip":
            pos = rng.randrange(L)
            b[pos] = b[pos] ^ (1 << rng.randrange(7))
        elif kind == "truncate":
            b = b[:rng.randrange(L)]
        elif kind == "dup":
            a = rng.randrange(L)
            z = min(L, a + rng.randint(1, 80))
            b = b[:z] + b[a:z] + b[z:]
        elif kind == "garbage":
            a = rng.randrange(L)
            b[a:a + 8] = bytes(rng.getrandbits(8) for _ in range(8))
        elif kind == "nonutf8":
            a = rng.randrange(L)
            b[a:a] = b"\xff\xfe"
        else:
            lines = bytes(b).split(b"\n")
            if len(lines) > 2:
                j = rng.randrange(len(lines) - 1)
                if kind == "delete-line":
                    del lines[j]
                else:
                    lines[j], lines[j + 1] = lines[j + 1], lines[j]
            b = bytearray(b"\n".join(lines))
        if bytes(b) != data:
            out.append({"key": "unstructured:" + kind, "data": bytes(b), "must": "weak"})
    return out


def corruptions(machine, text, seed):
    if machine == "M-TI":
        s = ini_structured(text)
    elif machine == "M-DI":
        s = discinfo_structured(text)
    else:
        s = json_structured(machine, json.loads(text))
    return s, unstructured(text.encode("utf-8"), seed)
