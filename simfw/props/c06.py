"""C06 - only objects meeting every documented field constraint can be written.

A constraint table (complement of every documented field domain, hand-written from doc/*.rst and the
property statement) is enumerated over the FIELD LOCATORS of history-built objects of all seven formats:
poison one field (any variant in the forest, any image in any cell, any section) -> dumps() and dump(path) must
raise TypeError/ValueError and yield no text (and, C18, leave the file alone) -> heal -> dump succeeds again and
a restart gives the model back (progress within one step once the fault is removed).  Converse: every dump of
an un-poisoned object must succeed; the swarm makes sure every enumeration value occurs.
"""
from ..kits import KITS, FORMATS
from ..pools import pick

ID = "C06"
LEVEL = "fault_enumeration"
RUNS = {"quick": 2800, "thorough": 21000}
REQUIRED_FAULTS = ["F2.invalid_value_dump"]
MACHINES = FORMATS


def generate(rng, tier, idx):
    kit = KITS[FORMATS[idx % len(FORMATS)]]
    K = kit.content(rng, tier)
    ops = kit.build(K, rng)
    path = kit.path
    ops.append(kit.dump_op(K, rng))
    sites = kit.sites(K)
    if tier == "quick" and len(sites) > 24:
        sites = rng.sample(sites, 24)
    else:
        sites = list(sites)
        rng.shuffle(sites)
    for site in sites:
        p, h = kit.poison(site)
        ops.append(p)
        ops.append({"op": "dumps"})
        ops.append({"op": "dump", "path": path})
        ops.append(h)
        if rng.random() < 0.2:
            ops.append({"op": "dumps"})
    ops.append({"op": "dump", "path": path})
    ops.append({"op": "restart", "path": path, "via": pick(rng, ["path", "handle", "loads"]), "offset": rng.randint(0, 500)})
    return {"machine": kit.machine, "cfg": kit.cfg(rng), "ops": ops}
