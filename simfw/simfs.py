"""SimFS - the simulated disk.

Every path the simulation hands to productmd lives under the virtual root "/sim".  The disk behind it is a REAL,
private, freshly wiped directory on tmpfs (one per worker process); what makes it a *simulated* disk is the
interposition layer installed by simfw.seams: builtins.open / io.open and every os.* function that takes a path are
wrapped, translate "/sim/..." to the private directory, record an I/O trace and inject the read-side faults a run's
fault plan arms (EIO / EACCES on open, EIO at a byte offset, file vanishing between exists() and open(), adversarial
listdir order).  Consequences:

* POSIX behaviour the properties can observe (truncate at open time, buffered writes reaching the disk on
  flush/close - also when a with-block is left by an exception, rename atomicity, ENOENT for a missing parent, ...)
  is the kernel's own, not a model of it;
* any I/O route the code under test may take (open, io.open, codecs.open, pathlib, os.open + os.fdopen, tempfile +
  os.replace, shutil) reaches the same disk, so a change of route (e.g. an atomic-write refactoring) is not mistaken
  for a violation;
* productmd only ever sees the deterministic "/sim/..." strings, so messages and logs do not depend on the private
  directory's random name.

Read handles never return short reads (a BufferedReader over a regular file does not either).
"""
import builtins
import errno
import io
import os
import posixpath
import shutil
import tempfile

ROOT = "/sim"

# originals, captured before any interposition
_o_open = builtins.open
_o = dict((n, getattr(os, n)) for n in (
    "stat", "lstat", "listdir", "scandir", "mkdir", "rmdir", "remove", "unlink", "rename", "replace", "chmod", "utime",
    "access", "truncate", "open", "link", "symlink", "readlink", "makedirs", "getpid", "walk"))
_o_chdir = os.chdir
_FIXED_MTIME = 1000000000

_roots = {}


def norm(path):
    p = posixpath.normpath(path)
    if p.startswith("//"):
        p = p[1:]
    return p


# the run's current directory inside the virtual root (None: relative paths are none of the simulation's business).  The
# process really IS chdir'ed to the matching private directory, so os.getcwd() / abspath() agree with it.
VCWD = [None]


def resolve(path):
    """a RELATIVE str path is taken relative to the run's virtual current directory"""
    if VCWD[0] is not None and isinstance(path, str) and path and not path.startswith("/"):
        return VCWD[0].rstrip("/") + "/" + path
    return path


def key_of(path):
    """the name a path goes by in the trace and the fault plan: normalised textually - unless it contains '..', which only
    the kernel can resolve (the parent of a symbolic link's target is not the link's parent)"""
    p = resolve(path)
    if ".." in p.split("/"):
        real = os.path.realpath(real_root() + p[len(ROOT):])
        r = real_root()
        if real.startswith(r):
            return norm(ROOT + real[len(r):])
    return norm(p)


def under_root(path):
    path = resolve(path)
    return isinstance(path, str) and (path == ROOT or path.startswith(ROOT + "/"))


def real_root():
    pid = _o["getpid"]()
    r = _roots.get(pid)
    if r is None:
        base = "/dev/shm" if os.path.isdir("/dev/shm") and _o["access"]("/dev/shm", os.W_OK) else None
        r = tempfile.mkdtemp(prefix="pmd-sim-%d-" % pid, dir=base)
        _roots.clear()          # a forked child never uses its parent's directory
        _roots[pid] = r
    return r


def sweep_stale():
    """remove private directories left behind by processes that no longer exist (killed runs)"""
    for base in ("/dev/shm", tempfile.gettempdir()):
        try:
            names = _o["listdir"](base)
        except OSError:
            continue
        for n in names:
            if not n.startswith("pmd-sim-"):
                continue
            try:
                pid = int(n.split("-")[2])
            except (IndexError, ValueError):
                continue
            if not os.path.exists("/proc/%d" % pid):
                shutil.rmtree(os.path.join(base, n), ignore_errors=True)


def cleanup():
    pid = _o["getpid"]()
    r = _roots.pop(pid, None)
    if r:
        shutil.rmtree(r, ignore_errors=True)


def to_real(path):
    """'/sim/x' -> '<private dir>/x' (only called for paths under the virtual root).  The path is NOT normalised
    textually: 'a/../b' is resolved by the kernel, component by component, exactly as it would be on a real disk
    (so 'a' must exist; a symlink 'a' is followed)."""
    path = resolve(path)
    return real_root() + path[len(ROOT):]


def to_sim(real):
    r = real_root()
    if isinstance(real, str) and real.startswith(r):
        return ROOT + real[len(r):]
    return real


def translate(path):
    """for the os.* wrappers: str / PathLike under the virtual root -> real path; anything else unchanged"""
    if isinstance(path, int) or path is None:
        return path
    try:
        p = os.fspath(path)
    except TypeError:
        return path
    if isinstance(p, bytes):
        try:
            ps = p.decode("utf-8")
        except UnicodeDecodeError:
            return path
        return to_real(ps).encode("utf-8") if under_root(ps) else path
    if under_root(p):
        return to_real(p)
    return path


class _TracingReader(object):
    """what open(p, 'rb') returns under the virtual root: the real file object with every read recorded and an
    optional EIO armed at a byte offset"""

    def __init__(self, f, fs, simpath, eio_at=None, raw=False):
        self._f = f
        self._fs = fs
        self._p = simpath
        self._eio_at = eio_at
        # an UNBUFFERED handle (buffering=0) is the bare read(2): it may return fewer bytes than asked for before the end
        # of the file (network file systems, pipes, signals) - a buffered handle never does, so only raw handles get short
        # counts here; the sizes follow a fixed pattern, so a run stays a pure function of its op list
        self._raw = raw
        self._nreads = 0

    def read(self, n=-1):
        pos = self._f.tell()
        if self._eio_at is not None:
            want_end = pos + n if (n is not None and n >= 0) else float("inf")
            if pos <= self._eio_at < max(want_end, pos + 1):
                at = self._eio_at
                self._eio_at = None
                self._fs.fired("F6.eio_at_offset")
                self._fs.trace.append(("read_eio", self._p, pos, n))
                # the failure is one-off (a later read of the same file works) and comes as EIO or - every other time - as
                # ESTALE, the "transient" error of network file systems: either way the digest of that file is not known
                code = errno.ESTALE if at % 2 else errno.EIO
                raise OSError(code, os.strerror(code) + " (injected)", self._p)
        if self._raw and n is not None and n > 1:
            cap = (65536, n, 100000, 1, 524288, 3)[self._nreads % 6]
            self._nreads += 1
            if cap < n:
                chunk = self._f.read(cap)
                if len(chunk) == cap:
                    self._fs.fired("F6.short_read_raw")
                self._fs.trace.append(("read", self._p, pos, n, len(chunk)))
                return chunk
        chunk = self._f.read(n)
        self._fs.trace.append(("read", self._p, pos, n, len(chunk)))
        return chunk

    def readinto(self, b):
        chunk = self.read(len(b))
        b[:len(chunk)] = chunk
        return len(chunk)

    def read1(self, n=-1):
        return self.read(n)

    def readall(self):
        return self.read()

    def __iter__(self):
        return iter(self.read().splitlines(True))

    def __enter__(self):
        return self

    def __exit__(self, *a):
        self._f.close()
        return False

    def __getattr__(self, name):
        return getattr(self._f, name)


class _FaultyText(object):
    """a text handle whose first read fails with EIO (armed F6.eio_at_offset on a text-mode open)"""

    def __init__(self, f, fs, simpath):
        self._f = f
        self._fs = fs
        self._p = simpath
        self._armed = True

    def _maybe(self):
        if self._armed:
            self._armed = False
            self._fs.fired("F6.eio_at_offset")
            self._fs.trace.append(("read_eio", self._p))
            raise OSError(errno.EIO, "Input/output error (injected)", self._p)

    def read(self, *a):
        self._maybe()
        return self._f.read(*a)

    def readline(self, *a):
        self._maybe()
        return self._f.readline(*a)

    def readlines(self, *a):
        self._maybe()
        return self._f.readlines(*a)

    def __iter__(self):
        self._maybe()
        return iter(self._f)

    def __enter__(self):
        return self

    def __exit__(self, *a):
        self._f.close()
        return False

    def __getattr__(self, name):
        return getattr(self._f, name)


class SimFS(object):
    def __init__(self, ctx=None):
        self.ctx = ctx
        self.trace = []
        self.armed = {}        # kind -> dict(path=..., ...)   one-shot faults
        self.listdir_rng = None
        self.listdir_mode = "sorted"
        self.wipe()

    # ---- the private directory ---------------------------------------------------------------
    def wipe(self):
        r = real_root()
        for name in _o["listdir"](r):
            p = os.path.join(r, name)
            if os.path.isdir(p) and not os.path.islink(p):
                shutil.rmtree(p, ignore_errors=True)
            else:
                try:
                    _o["remove"](p)
                except OSError:
                    pass

    def real(self, path):
        return to_real(path)

    # ---- bookkeeping ------------------------------------------------------------------------------
    def fired(self, kind):
        if self.ctx is not None:
            self.ctx.fault(kind)

    def arm(self, kind, path=None, **kw):
        d = dict(kw)
        d["path"] = norm(path) if path else None
        self.armed[kind] = d

    def disarm(self, kind=None):
        if kind is None:
            self.armed.clear()
        else:
            self.armed.pop(kind, None)

    def _take(self, kind, path):
        a = self.armed.get(kind)
        if a is not None and (a["path"] is None or a["path"] == path):
            del self.armed[kind]
            return a
        return None

    # ---- harness-side helpers (not traced, not subject to faults) --------------------------------------
    def mkdirs(self, path):
        _o["makedirs"](to_real(path), exist_ok=True)

    def put(self, path, data):
        real = to_real(path)
        _o["makedirs"](os.path.dirname(real), exist_ok=True)
        if isinstance(data, str):
            data = data.encode("utf-8")
        with _o_open(real, "wb") as f:
            f.write(data)
        _o["utime"](real, (_FIXED_MTIME, _FIXED_MTIME))

    def get(self, path):
        try:
            with _o_open(to_real(path), "rb") as f:
                return f.read()
        except (FileNotFoundError, IsADirectoryError, NotADirectoryError):
            return None

    def remove(self, path):
        try:
            _o["remove"](to_real(path))
        except OSError:
            pass

    def rmtree(self, path):
        shutil.rmtree(to_real(path), ignore_errors=True)

    def is_file(self, path):
        return os.path.isfile(to_real(path))

    def is_dir(self, path):
        return os.path.isdir(to_real(path))

    def _walk(self):
        r = real_root()
        files, dirs = set(), set([ROOT, "/"])
        for dp, dn, fn in _o["walk"](r):
            sim_dp = ROOT + dp[len(r):]
            dirs.add(sim_dp)
            for f in fn:
                files.add(sim_dp + "/" + f)
        return files, dirs

    @property
    def files(self):
        return self._walk()[0]

    @property
    def dirs(self):
        return self._walk()[1]

    def snapshot(self):
        return dict((p, self.get(p)) for p in self.files)

    # ---- what the code under test reaches through the interposed builtins.open ----------------------------
    def open(self, path, mode="r", *args, **kwargs):
        real = to_real(path)        # as given: the kernel resolves it
        path = key_of(path)         # key for the trace and the fault plan
        if any(c in mode for c in "wax+"):
            try:
                f = _o_open(real, mode, *args, **kwargs)
            except OSError as e:
                self.trace.append(("open_w_fail", path, type(e).__name__))
                raise type(e)(e.errno, e.strerror, path) if e.errno else e
            self.trace.append(("open_w", path, mode))
            return f
        # read
        if self._take("F6.vanish_after_exists", path) is not None:
            self.fired("F6.vanish_after_exists")
            try:
                _o["remove"](real)
            except OSError:
                pass
        a = self._take("F6.eio_on_open", path) if os.path.isfile(real) else None
        if a is not None:
            self.fired("F6.eio_on_open")
            self.trace.append(("open_r_eio", path))
            raise OSError(a.get("errno", errno.EIO), "Input/output error (injected)", path)
        a = self._take("F6.eacces_on_open", path) if os.path.isfile(real) else None
        if a is not None:
            self.fired("F6.eacces_on_open")
            self.trace.append(("open_r_eacces", path))
            raise PermissionError(errno.EACCES, "Permission denied (injected)", path)
        try:
            f = _o_open(real, mode, *args, **kwargs)
        except OSError as e:
            self.trace.append(("open_r_fail", path, type(e).__name__))
            raise type(e)(e.errno, e.strerror, path) if e.errno else e
        eio_at = None
        a = self._take("F6.eio_at_offset", path)
        if a is not None:
            eio_at = a.get("offset", 0)
        self.trace.append(("open_r", path, mode))
        if "b" in mode:
            buffering = kwargs.get("buffering", args[0] if args else -1)
            return _TracingReader(f, self, path, eio_at, raw=(buffering == 0))
        if eio_at is not None:
            return _FaultyText(f, self, path)
        return f

    def listdir(self, path):
        path_s = os.fspath(path) if not isinstance(path, str) else path
        path_s = resolve(path_s)
        names = sorted(_o["listdir"](to_real(path_s)))
        if self.listdir_mode == "reverse":
            names.reverse()
        elif self.listdir_mode == "shuffle" and self.listdir_rng is not None:
            self.listdir_rng.shuffle(names)
            self.fired("F7.listdir_order")
        self.trace.append(("listdir", norm(path_s), len(names)))
        return names
