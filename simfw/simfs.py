"""SimFS - the simulated disk.

An in-memory POSIX-like tree (path -> bytes, plus a set of directories) that
productmd reaches through the seams installed by simfw.seams.  Behaviour that
the properties can observe is kept faithful to a real file system:

* open(p, "w") truncates AT OPEN TIME and creates the file; the parent
  directory must exist.
* text written is buffered in the handle and reaches the disk on
  flush()/close()/context exit - also when the with-block is left by an
  exception (exactly like a real buffered file object).
* open(p) / open(p, "rb") read a snapshot taken at open time.
* read handles never return short reads (a BufferedReader over a regular file
  does not either).

Every call is appended to the I/O trace.  Read-side fault points are armed
explicitly by a run's fault plan; each firing is counted in ctx.faults.
"""
import errno
import io
import posixpath

ROOT = "/sim"


def norm(path):
    p = posixpath.normpath(path)
    if p.startswith("//"):
        p = p[1:]
    return p


def under_root(path):
    return isinstance(path, str) and (path == ROOT or path.startswith(ROOT + "/"))


class _WriteHandle(io.StringIO):
    def __init__(self, fs, path):
        io.StringIO.__init__(self)
        self._fs = fs
        self._path = path
        self._done = False
        self.name = path
        self.mode = "w"

    def flush(self):
        if not self._done and not self.closed:
            self._fs._commit(self._path, self.getvalue())
        io.StringIO.flush(self)

    def close(self):
        if not self._done:
            self._fs._commit(self._path, self.getvalue())
            self._fs.trace.append(("close_w", self._path, len(self.getvalue())))
            self._done = True
        io.StringIO.close(self)


class _BinWriteHandle(io.BytesIO):
    def __init__(self, fs, path):
        io.BytesIO.__init__(self)
        self._fs = fs
        self._path = path
        self._done = False
        self.name = path
        self.mode = "wb"

    def flush(self):
        if not self._done and not self.closed:
            self._fs.files[self._path] = self.getvalue()
        io.BytesIO.flush(self)

    def close(self):
        if not self._done:
            self._fs.files[self._path] = self.getvalue()
            self._fs.trace.append(("close_w", self._path, len(self.getvalue())))
            self._done = True
        io.BytesIO.close(self)


class _BinReadHandle(object):
    """What open(p, 'rb') returns: exact-length reads, recorded, with an
    optional EIO armed at a byte offset."""

    def __init__(self, fs, path, data, eio_at=None):
        self._fs = fs
        self._path = path
        self._data = data
        self._pos = 0
        self._eio_at = eio_at
        self.closed = False
        self.name = path
        self.mode = "rb"

    def read(self, n=-1):
        if self.closed:
            raise ValueError("I/O operation on closed file.")
        if n is None or n < 0:
            n = len(self._data) - self._pos
        end = min(len(self._data), self._pos + n)
        if self._eio_at is not None and self._pos <= self._eio_at < max(end, self._pos + 1) and self._eio_at < max(len(self._data), 1):
            self._fs.fired("F6.eio_at_offset")
            self._fs.trace.append(("read_eio", self._path, self._pos, n))
            self._eio_at = None
            raise OSError(errno.EIO, "Input/output error (injected)", self._path)
        chunk = self._data[self._pos:end]
        self._fs.trace.append(("read", self._path, self._pos, n, len(chunk)))
        self._pos = end
        return chunk

    def readinto(self, b):
        chunk = self.read(len(b))
        b[:len(chunk)] = chunk
        return len(chunk)

    def seek(self, off, whence=0):
        if whence == 0:
            self._pos = off
        elif whence == 1:
            self._pos += off
        else:
            self._pos = len(self._data) + off
        return self._pos

    def tell(self):
        return self._pos

    def seekable(self):
        return True

    def readable(self):
        return True

    def fileno(self):
        # a simulated descriptor: os.fstat() on it is answered by the os proxy
        if getattr(self, "_fd", None) is None:
            self._fd = self._fs.new_fd(self._path)
        return self._fd

    def close(self):
        self.closed = True

    def __enter__(self):
        return self

    def __exit__(self, *a):
        self.close()
        return False

    def __iter__(self):
        return iter(self.read().splitlines(True))


class _TextReadHandle(io.TextIOWrapper):
    pass


class SimFS(object):
    def __init__(self, ctx=None):
        self.files = {}
        self.dirs = set([ROOT, "/"])
        self.trace = []
        self.ctx = ctx
        self.armed = {}        # kind -> dict(path=..., ...)   one-shot faults
        self.listdir_rng = None
        self.listdir_mode = "sorted"
        self.open_counts = {}

    # ---- simulated descriptors / stat -----------------------------------
    def new_fd(self, path):
        if not hasattr(self, "fds"):
            self.fds = {}
        fd = 100000 + len(self.fds)
        self.fds[fd] = path
        return fd

    def stat(self, path):
        import os
        import stat as _stat
        path = norm(path)
        if path in self.files:
            mode, size = _stat.S_IFREG | 0o644, len(self.files[path])
        elif path in self.dirs:
            mode, size = _stat.S_IFDIR | 0o755, 4096
        else:
            raise FileNotFoundError(errno.ENOENT, "No such file or directory", path)
        return os.stat_result((mode, 1, 1, 1, 0, 0, size, 0, 0, 0))

    def fstat(self, fd):
        path = getattr(self, "fds", {}).get(fd)
        if path is None:
            raise OSError(errno.EBADF, "Bad file descriptor")
        return self.stat(path)

    # ---- bookkeeping -------------------------------------------------
    def fired(self, kind):
        if self.ctx is not None:
            self.ctx.fault(kind)

    def arm(self, kind, path=None, **kw):
        d = dict(kw)
        d["path"] = norm(path) if path else None
        self.armed[kind] = d

    def disarm(self, kind=None):
        if kind is None:
            self.armed.clear()
        else:
            self.armed.pop(kind, None)

    def _take(self, kind, path):
        a = self.armed.get(kind)
        if a is not None and (a["path"] is None or a["path"] == path):
            del self.armed[kind]
            return a
        return None

    def _commit(self, path, text):
        self.files[path] = text.encode("utf-8")

    # ---- harness-side helpers (not traced) ------------------------------
    def mkdirs(self, path):
        path = norm(path)
        parts = path.split("/")
        for i in range(2, len(parts) + 1):
            self.dirs.add("/".join(parts[:i]) or "/")

    def put(self, path, data):
        path = norm(path)
        self.mkdirs(posixpath.dirname(path))
        if isinstance(data, str):
            data = data.encode("utf-8")
        self.files[path] = data

    def get(self, path):
        return self.files.get(norm(path))

    def remove(self, path):
        path = norm(path)
        self.files.pop(path, None)

    def rmtree(self, path):
        path = norm(path)
        for p in [p for p in self.files if p == path or p.startswith(path + "/")]:
            del self.files[p]
        for d in [d for d in self.dirs if d == path or d.startswith(path + "/")]:
            self.dirs.discard(d)

    def snapshot(self):
        return dict(self.files)

    # ---- what productmd sees ---------------------------------------------
    def open(self, path, mode="r", *args, **kwargs):
        path = norm(path)
        self.open_counts[(path, mode)] = self.open_counts.get((path, mode), 0) + 1
        if "w" in mode or "a" in mode or "x" in mode or "+" in mode:
            parent = posixpath.dirname(path)
            if parent not in self.dirs:
                self.trace.append(("open_w_enoent", path))
                raise FileNotFoundError(errno.ENOENT, "No such file or directory", path)
            if path in self.dirs:
                raise IsADirectoryError(errno.EISDIR, "Is a directory", path)
            if "x" in mode and path in self.files:
                raise FileExistsError(errno.EEXIST, "File exists", path)
            if "a" in mode or ("+" in mode and "w" not in mode):
                prev = self.files.get(path, b"")
            else:
                prev = b""
                self.files[path] = b""          # truncation happens at open time
            self.trace.append(("open_w", path, mode))
            if "b" in mode:
                h = _BinWriteHandle(self, path)
                h.write(prev)
            else:
                h = _WriteHandle(self, path)
                h.write(prev.decode("utf-8", "replace"))
            return h
        # read
        if self._take("F6.vanish_after_exists", path) is not None:
            self.fired("F6.vanish_after_exists")
            self.files.pop(path, None)
        if path in self.dirs:
            self.trace.append(("open_r_isdir", path))
            raise IsADirectoryError(errno.EISDIR, "Is a directory", path)
        if path not in self.files:
            self.trace.append(("open_r_enoent", path))
            raise FileNotFoundError(errno.ENOENT, "No such file or directory", path)
        a = self._take("F6.eio_on_open", path)
        if a is not None:
            self.fired("F6.eio_on_open")
            self.trace.append(("open_r_eio", path))
            raise OSError(a.get("errno", errno.EIO), "Input/output error (injected)", path)
        a = self._take("F6.eacces_on_open", path)
        if a is not None:
            self.fired("F6.eacces_on_open")
            self.trace.append(("open_r_eacces", path))
            raise PermissionError(errno.EACCES, "Permission denied (injected)", path)
        data = self.files[path]
        eio_at = None
        a = self._take("F6.eio_at_offset", path)
        if a is not None:
            eio_at = a.get("offset", 0)
        self.trace.append(("open_r", path, mode))
        if "b" in mode:
            return _BinReadHandle(self, path, data, eio_at)
        if eio_at is not None:
            # text handles read everything at once: an armed EIO fires on read
            raw = _EIOBytes(self, path, data, eio_at)
        else:
            raw = io.BytesIO(data)
        h = io.TextIOWrapper(raw, encoding=kwargs.get("encoding") or "utf-8", errors=kwargs.get("errors"))
        return h

    def exists(self, path):
        path = norm(path)
        r = path in self.files or path in self.dirs
        self.trace.append(("exists", path, r))
        return r

    def isdir(self, path):
        return norm(path) in self.dirs

    def isfile(self, path):
        return norm(path) in self.files

    def listdir(self, path):
        path = norm(path)
        if path not in self.dirs:
            if path in self.files:
                raise NotADirectoryError(errno.ENOTDIR, "Not a directory", path)
            raise FileNotFoundError(errno.ENOENT, "No such file or directory", path)
        pre = path.rstrip("/") + "/"
        names = set()
        for p in list(self.files) + list(self.dirs):
            if p.startswith(pre) and p != path:
                names.add(p[len(pre):].split("/")[0])
        names = sorted(names)
        if self.listdir_mode == "reverse":
            names.reverse()
        elif self.listdir_mode == "shuffle" and self.listdir_rng is not None:
            self.listdir_rng.shuffle(names)
            self.fired("F7.listdir_order")
        self.trace.append(("listdir", path, len(names)))
        return names

    # write-side directory ops, for completeness of the os proxy
    def os_remove(self, path):
        path = norm(path)
        if path not in self.files:
            raise FileNotFoundError(errno.ENOENT, "No such file or directory", path)
        del self.files[path]
        self.trace.append(("remove", path))

    def os_rename(self, src, dst):
        src, dst = norm(src), norm(dst)
        if src not in self.files:
            raise FileNotFoundError(errno.ENOENT, "No such file or directory", src)
        if posixpath.dirname(dst) not in self.dirs:
            raise FileNotFoundError(errno.ENOENT, "No such file or directory", dst)
        self.files[dst] = self.files.pop(src)
        self.trace.append(("rename", src, dst))

    def os_makedirs(self, path, exist_ok=False):
        path = norm(path)
        if path in self.dirs and not exist_ok:
            raise FileExistsError(errno.EEXIST, "File exists", path)
        self.mkdirs(path)


class _EIOBytes(io.BytesIO):
    def __init__(self, fs, path, data, eio_at):
        io.BytesIO.__init__(self, data)
        self._fs = fs
        self._p = path
        self._eio_at = eio_at

    def _maybe(self):
        if self._eio_at is not None:
            self._eio_at = None
            self._fs.fired("F6.eio_at_offset")
            self._fs.trace.append(("read_eio", self._p))
            raise OSError(errno.EIO, "Input/output error (injected)", self._p)

    def read(self, *a):
        self._maybe()
        return io.BytesIO.read(self, *a)

    def read1(self, *a):
        self._maybe()
        return io.BytesIO.read1(self, *a)

    def readinto(self, b):
        self._maybe()
        return io.BytesIO.readinto(self, b)
