#!/venv/bin/python
"""CLI of the productmd deterministic simulator.

  main.py C18 --tier quick            run the check (exit 0 / 1 + VIOLATION line / 2 harness error)
  main.py C18 --replay FILE           re-execute a replay file; exit 1 iff the same violation is reproduced
  main.py C18 --digests N             print the event-log digests of the first N runs (determinism self-test)
"""
import argparse
import json
import os
import sys
import time

VERIF = os.path.dirname(os.path.dirname(os.path.abspath(__file__)))
if VERIF not in sys.path:
    sys.path.insert(0, VERIF)

from simfw import core, seams            # noqa: E402
from simfw.seams import HarnessError     # noqa: E402


STUBS = [
    "disk: a private per-process tmpfs directory reached only through interposed builtins.open / io.open / os.* (paths under /sim translated, I/O traced, read faults injected); file semantics are the kernel's",
    "wall clock: time.time interposed - starts at a date drawn from the run's seed and advances 1.37 s on every reading (the harness measures with time.monotonic); readings by the code under test are counted in probes['clock.read_by_code_under_test']",
    "set iteration order: SimSet injected as the name `set` in productmd.composeinfo/images/treeinfo (membership etc. are the real C implementation)",
    "network: urllib.request.OpenerDirector.open interposed - URLs on the simulated host sim.example are answered by an in-process peer serving the run's simulated disk (a real http.client.HTTPResponse parsed from a fake socket; refused / timeout / 503 / disconnect / cut-body faults on the n-th request; chunked transfer, dribbling socket); any other URL fails the run, the real network is never reached (used by C20's remote runs only)",
]
REAL = [
    "all productmd code (unmodified working tree at VERIF_REPO, default /repo), incl. every _validate* method (wrapped only to count / inject a raise)",
    "json, configparser, hashlib, six, re",
]


def evidence_path(prop):
    return os.path.join(os.environ.get("VERIF_EVIDENCE_DIR") or os.path.join(VERIF, "evidence"), "%s.json" % prop)


def write_evidence(prop, tier, seed, level, total, wall, extra, violations):
    pm = core._prop_module(prop)
    hours = max(wall, 1e-6) / 3600.0
    faults = dict(sorted(total["faults"].items()))
    probes = dict(sorted(total["probes"].items()))
    samples = []
    for s in total["samples"][:2]:
        samples.append({"run_index": s["run_index"], "machine": s["case"]["machine"], "cfg": s["case"]["cfg"],
                        "ops": s["case"]["ops"][:60], "ops_total": len(s["case"]["ops"])})
    if not samples:
        samples = [{"note": "no run evaluated the property"}]
    cov = {
        "evaluations": max(total["runs"], 0),
        "distinct_nontrivial": len(total["distinct"]),
        "rule": getattr(pm, "RULE", "") or (
            "evaluations = simulated runs (seeded op histories with faults) executed; distinct_nontrivial = number of distinct "
            "(abstract model state, operation kind, outcome class) keys at which an invariant of THIS property was actually "
            "evaluated on a non-empty object, measured as a set per worker and merged by union"),
        "samples": samples,
        "invariant_evaluations": total["evals"],
        "ops_executed": total["ops"],
        "runs_per_hour": int(total["runs"] / hours),
        "seeds_per_hour": int(total["runs"] / hours),
        "simulated_time": "n/a as a measure: productmd has no timers or deadlines in the code these properties touch; the wall clock is simulated all the same (advances on every reading) so that output depending on it shows",
        "interleavings": "n/a (single-threaded library: no scheduler; the order adversary is SimSet/listdir iteration order)",
        "fault_firings": faults,
        "probes": probes,
        "unreached_required_faults": [f for f in getattr(pm, "REQUIRED_FAULTS", []) if not faults.get(f)],
        "history_length_histogram": dict((str(k), v) for k, v in sorted(total["hist"].items())),
        "foreign_cutoffs": dict(sorted(total["foreign"].items())),
        "known_findings_hit": dict(sorted(total["known"].items())),
        "skipped_runs_budget": total["skipped"],
        "real_components": REAL,
        "stubbed_components": STUBS,
        "machines": getattr(pm, "MACHINES", []),
        "exhaustive": False,
    }
    cov.update(extra or {})
    ev = {
        "property_id": prop, "tier": tier, "seed": seed, "level": level, "coverage": cov,
        "assumptions": getattr(pm, "ASSUMPTIONS", []) + [
            "a clean batch is evidence, not proof: the search samples histories and fault placements",
            "the simulated disk is a real private directory behind interposed builtins.open / io.open / os.*: file semantics are the kernel's; only READ-side faults are injected (no claimed property gives write-side faults an oracle)",
            "wall-clock time enters only as a per-run watchdog (VERIF_RUN_TIMEOUT_S, default 60 s; a run takes milliseconds) that turns a call which never returns into a violation",
        ],
        "wall_s": round(wall, 3), "violations": violations,
    }
    os.makedirs(os.path.dirname(evidence_path(prop)), exist_ok=True)
    tmp = evidence_path(prop) + ".tmp"
    with open(tmp, "w") as f:
        json.dump(ev, f, indent=1, sort_keys=True)
    os.replace(tmp, evidence_path(prop))
    return ev


def cmd_check(prop, tier, seed, args):
    t0 = time.monotonic()
    from simfw import simfs
    simfs.sweep_stale()
    pm = core._prop_module(prop)
    seams.install()
    nruns = args.runs or pm.RUNS[tier]
    budget = float(os.environ.get("VERIF_BUDGET_S", "0") or 0) or None
    extra = {}
    print("check %s tier=%s seed=%d runs=%d repo=%s" % (prop, tier, seed, nruns, seams.installed_info()["repo"]))
    sys.stdout.flush()
    extra["determinism_precheck"] = core.determinism_precheck(prop, tier, seed, n=3)
    pre = getattr(pm, "pre_batch", None)
    total = core.run_batch(prop, tier, seed, nruns, workers=args.workers, budget_s=budget)
    post = getattr(pm, "post_batch", None)
    post_violations = []
    if post is not None:
        post_violations = post(tier, seed, total, extra) or []
    known_defs = core.load_known()
    for ck, n in sorted(total["known"].items()):
        k = [x for x in known_defs if x["cause_key"] == ck and x["property"] == prop][0]
        print("KNOWN-FINDING: property=%s %s [cause_key=%s, hit in %d runs]" % (prop, k["what"], ck, n))
    nviol = len(total["violations"]) + total["more_violations"]
    rc = 0
    if total["viol_keys"]:
        print("violation cause keys in this batch: %s" % json.dumps(total["viol_keys"], sort_keys=True))
    # one replay per distinct cause key (first run index each), at most 4
    firsts = {}
    for v in total["violations"]:
        firsts.setdefault(v["violation"]["cause_key"], v)
    for v in sorted(firsts.values(), key=lambda x: x["idx"])[:8]:
        case, vrec = v["case"], v["violation"]
        if v.get("died"):
            # the interpreter itself died somewhere in this chunk: nothing to shrink in-process; the replay is the chunk,
            # executed in a child process
            path = core.write_sequence_replay(prop, seed, tier, v)
            ok, out = core.verify_replay_fresh(prop, path)
            if not ok:
                print("HARNESS-ERROR: a worker process died (exit %s) and the chunk does not reproduce it:\n%s" % (vrec["detail"].get("exitcode"), out))
                write_evidence(prop, tier, seed, pm.LEVEL, total, time.monotonic() - t0, extra, nviol)
                return 2
            print("violation: %s" % json.dumps(vrec, sort_keys=True))
            print("VIOLATION property=%s replay=%s" % (prop, path))
            rc = 1
            continue
        slow = vrec["cause_key"].startswith("run-did-not-finish")
        if slow:
            core.RUN_TIMEOUT_S[0] = 10          # a run takes milliseconds; ten seconds are ample to tell "hangs" while shrinking
        shrunk, execs = core.shrink(case, vrec, max_execs=16 if slow else 600)
        r = core.run_case(shrunk)
        if not core.same_violation(r["violation"], vrec):
            shrunk, r = case, core.run_case(case)
        path = core.write_replay(prop, seed, v["idx"], shrunk, r["violation"], len(case["ops"]), tier, run_timeout_s=10 if slow else None)
        ok, out = core.verify_replay_fresh(prop, path)
        if not ok:
            # depends on state carried across runs inside the worker process: replay the worker's whole sequence
            try:
                os.unlink(path)
            except OSError:
                pass
            path = core.write_sequence_replay(prop, seed, tier, v)
            ok, out = core.verify_replay_fresh(prop, path)
            r = {"violation": vrec}
            shrunk = case
        if not ok:
            print("HARNESS-ERROR: replay %s does not reproduce in a fresh interpreter:\n%s" % (path, out))
            write_evidence(prop, tier, seed, pm.LEVEL, total, time.monotonic() - t0, extra, nviol)
            return 2
        print("violation: %s" % json.dumps(r["violation"], sort_keys=True))
        print("minimised %d -> %d ops in %d executions; %d violating runs in this batch" %
              (len(case["ops"]), len(shrunk["ops"]), execs, nviol))
        print("VIOLATION property=%s replay=%s" % (prop, path))
        rc = 1
    for pv in post_violations:
        print("violation: %s" % json.dumps(pv.get("violation"), sort_keys=True))
        print("VIOLATION property=%s replay=%s" % (prop, pv["replay"]))
        nviol += 1
        rc = 1
    ev = write_evidence(prop, tier, seed, pm.LEVEL, total, time.monotonic() - t0, extra, nviol)
    unreached = ev["coverage"]["unreached_required_faults"]
    required = getattr(pm, "REQUIRED_FAULTS", [])
    if rc == 0 and unreached and not total["skipped"]:
        if len(unreached) == len(required):
            # a check that exercised NONE of its fault kinds is not a pass
            print("HARNESS-ERROR: none of the property's fault kinds fired: %s" % unreached)
            return 2
        # some seam was not reached on this tree (e.g. the code lists directories through another call than the one the
        # order adversary wraps): said in the evidence, not a reason to call the check broken
        print("NOTE: fault kinds that did not fire on this tree: %s" % unreached)
    if rc == 0 and total["evals"] == 0:
        print("HARNESS-ERROR: the property's invariants were never evaluated")
        return 2
    print("%s: runs=%d ops=%d evals=%d distinct=%d faults=%s foreign=%s known=%s wall=%.1fs -> %s" % (
        prop, total["runs"], total["ops"], total["evals"], len(total["distinct"]), json.dumps(total["faults"], sort_keys=True),
        json.dumps(total["foreign"], sort_keys=True), json.dumps(total["known"], sort_keys=True), time.monotonic() - t0,
        "PASS" if rc == 0 else "VIOLATION"))
    return rc


def cmd_replay(prop, path, args):
    seams.install()
    with open(path) as f:
        peek = json.load(f)
    if peek.get("run_timeout_s"):
        core.RUN_TIMEOUT_S[0] = int(peek["run_timeout_s"])
    if peek.get("mode") == "sequence" and peek["violation"]["cause_key"].startswith("interpreter-died"):
        import multiprocessing
        ctx = multiprocessing.get_context("fork")
        p = ctx.Process(target=core.replay_sequence, args=(peek,))
        p.start()
        p.join(3000)
        if p.is_alive():
            p.terminate()
            p.join()
        if p.exitcode != 0:
            got = dict(peek["violation"])
            got["detail"] = dict(got.get("detail") or {}, replay_exitcode=p.exitcode)
            print("violation: %s" % json.dumps(got, sort_keys=True))
            print("VIOLATION property=%s replay=%s" % (got["property"], path))
            return 1
        print("replay %s (sequence of %d cases): the interpreter survived, no violation" % (path, len(peek["cases"])))
        return 0
    if peek.get("mode") == "sequence":
        res = core.replay_sequence(peek)
        got = res["violation"] if res else None
        if got is not None and core.same_violation(got, peek["violation"]):
            print("violation: %s" % json.dumps(got, sort_keys=True))
            print("VIOLATION property=%s replay=%s" % (got["property"], path))
            return 1
        print("replay %s (sequence of %d cases): no violation" % (path, len(peek["cases"])))
        return 0
    if peek.get("mode") == "hashseed":
        pm = core._prop_module(prop)
        v = pm.replay_hashseed(peek)
        if v is not None:
            print("violation: %s" % json.dumps(v, sort_keys=True))
            print("VIOLATION property=%s replay=%s" % (prop, path))
            return 1
        print("replay %s: no violation" % path)
        return 0
    doc, res = core.replay_file(path)
    want = doc.get("violation")
    got = res["violation"]
    if got is not None and (want is None or core.same_violation(got, want)):
        print("violation: %s" % json.dumps(got, sort_keys=True))
        if want is not None and got.get("detail") != want.get("detail"):
            print("note: same invariant and cause, detail differs from the recorded one")
        print("VIOLATION property=%s replay=%s" % (got["property"], path))
        return 1
    if got is not None:
        print("replay produced a different violation: %s" % json.dumps(got, sort_keys=True))
        print("VIOLATION property=%s replay=%s" % (got["property"], path))
        return 1
    print("replay %s: no violation (digest %s)" % (path, res["digest"][:16]))
    return 0


def cmd_hashes(path):
    """Execute the cases in the JSON file `path` and print, per case, the hashes of every text it dumped
    (used by the real-PYTHONHASHSEED sweep of C08: one fresh interpreter per hash seed)."""
    seams.install()
    with open(path) as f:
        cases = json.load(f)
    out = []
    for case in cases:
        r = core.run_case(case)
        out.append({"hashes": r["dump_hashes"], "violation": r["violation"], "digest": r["digest"]})
    print(json.dumps(out))
    return 0


def cmd_digests(prop, tier, seed, n):
    seams.install()
    for idx in range(n):
        print(core.run_case(core.case_for(prop, tier, seed, idx))["digest"])
    return 0


def main():
    ap = argparse.ArgumentParser()
    ap.add_argument("prop")
    ap.add_argument("--tier", default=os.environ.get("VERIF_TIER") or "quick", choices=["quick", "thorough"])
    ap.add_argument("--seed", type=int, default=None)
    ap.add_argument("--replay")
    ap.add_argument("--digests", type=int)
    ap.add_argument("--hashes")
    ap.add_argument("--runs", type=int)
    ap.add_argument("--workers", type=int)
    ap.add_argument("--no-evidence", action="store_true")
    args = ap.parse_args()
    seed = args.seed if args.seed is not None else int(os.environ.get("VERIF_SEED", "0") or 0)
    prop = args.prop.upper()
    try:
        if args.hashes:
            return cmd_hashes(args.hashes)
        if args.replay:
            return cmd_replay(prop, args.replay, args)
        if args.digests:
            return cmd_digests(prop, args.tier, seed, args.digests)
        return cmd_check(prop, args.tier, seed, args)
    except HarnessError as e:
        print("HARNESS-ERROR: %s" % e)
        return 2


if __name__ == "__main__":
    try:
        rc = main()
    except SystemExit:
        raise
    except BaseException:
        import traceback
        traceback.print_exc()
        print("HARNESS-ERROR: unexpected exception in the harness")
        rc = 2
    sys.stdout.flush()
    sys.exit(rc)
