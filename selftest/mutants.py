"""Catalogue of mutants (DESIGN.md Appendix B): one small patch per anchored mechanism.
Each entry: name, prop (the property whose quick check must catch it; a list = any of them),
edits = [(file, old, new)] where `old` must occur exactly once in the file."""

CI = "productmd/composeinfo.py"
CM = "productmd/common.py"
IM = "productmd/images.py"
RP = "productmd/rpms.py"
MO = "productmd/modules.py"
XF = "productmd/extra_files.py"
TI = "productmd/treeinfo.py"
DI = "productmd/discinfo.py"
CD = "productmd/compose.py"

MUTANTS = [
    # ---- C01
    {"name": "c01-paths-skip-debug_repository", "prop": "C01", "edits": [(CI, '''            "debug_packages",
            "debug_repository",
            # debug isos''', '''            "debug_packages",
            # debug isos''')]},
    {"name": "c01-variant-deserialize-ignores-children", "prop": ["C01", "C11"], "edits": [(CI, '''        if "variants" in data:
            variant_ids = sorted(data["variants"])''', '''        if "variantz" in data:
            variant_ids = sorted(data["variants"])''')]},
    {"name": "c01-release-internal-dropped-both-sides", "prop": "C01", "edits": [
        (CI, '''        data[self._section]["internal"] = bool(self.internal)
''', ''''''),
    ]},
    {"name": "c01-layered-variant-release-not-restored", "prop": "C01", "edits": [(CI, '''        if self.type == "layered-product":
            self.release.deserialize(data)
''', '''''')]},
    {"name": "c01-label-final-always-false-on-read", "prop": "C01", "edits": [(CI, '''        self.respin = data[self._section]["respin"]
        self.final = bool(data[self._section].get("final", False))''', '''        self.respin = data[self._section]["respin"]
        self.final = False''')]},
    # ---- C02
    {"name": "c02-size-truncated-to-32bit", "prop": "C02", "edits": [(IM, '''        self.size = int(data["size"])''', '''        self.size = int(data["size"]) & 0xFFFFFFFFFF''')]},
    # ---- C03
    {"name": "c03-modules-deserialize-drops-arch-src", "prop": "C03", "edits": [(MO, '''        self.modules = data["payload"]["modules"]
        self.validate()''', '''        self.modules = dict((v, dict((a, m) for a, m in arches.items() if a != "armhfp")) for v, arches in data["payload"]["modules"].items())
        self.validate()''')]},
    {"name": "c03-extra-files-serialize-sorts-entries", "prop": "C03", "edits": [(XF, '''        data["payload"]["extra_files"] = self.extra_files
        return data''', '''        data["payload"]["extra_files"] = dict((v, dict((a, sorted(l, key=lambda e: e["file"])) for a, l in arches.items())) for v, arches in self.extra_files.items())
        return data''')]},
    # ---- C04
    {"name": "c04-media-swapped-on-read", "prop": "C04", "edits": [(TI, '''            self.discnum = parser.getint(self._section, "discnum")
            self.totaldiscs = parser.getint(self._section, "totaldiscs")''', '''            self.totaldiscs = parser.getint(self._section, "discnum")
            self.discnum = parser.getint(self._section, "totaldiscs")''')]},
    # ---- C06
    {"name": "c06-delete-image-validate_implant_md5", "prop": "C06", "edits": [(IM, '''        if self.implant_md5 is not None:
            self._assert_matches_re("implant_md5", [r"^[a-z0-9]{32}$"])''', '''        if self.implant_md5 is not None:
            pass''')]},
    {"name": "c06-rename-validate_respin", "prop": "C06", "edits": [(CI, '''    def _validate_respin(self):''', '''    def _check_respin(self):''')]},
    {"name": "c06-variant-serialize-no-validate", "prop": "C06", "edits": [(CI, '''            raise ValueError("Variant UID already exist: %s" % self.uid)

        self.validate()''', '''            raise ValueError("Variant UID already exist: %s" % self.uid)
''')]},
    {"name": "c06-treeinfo-images-abs-path-allowed", "prop": "C06", "edits": [(TI, '''                if path.startswith("/"):
                    raise ValueError("Only relative paths are allowed for images: %s" % path)''', '''                if path.startswith("//"):
                    raise ValueError("Only relative paths are allowed for images: %s" % path)''')]},
    {"name": "c06-discinfo-description-not-validated", "prop": "C06", "edits": [(DI, '''    def _validate_description(self):
        self._assert_not_blank("description")''', '''    def _validate_description(self):
        return
        self._assert_not_blank("description")''')]},
    # ---- C08
    {"name": "c08-variant-arches-unsorted", "prop": "C08", "edits": [(CI, '''        dump["arches"] = sorted(self.arches)''', '''        dump["arches"] = list(self.arches)''')]},
    {"name": "c08-tree-platforms-unsorted", "prop": ["C08", "C17"], "edits": [(TI, '''        parser.set(self._section, "platforms", ",".join(sorted(self.platforms | set([self.arch]))))
        parser.set(self._section, "build_timestamp"''', '''        parser.set(self._section, "platforms", ",".join(list(self.platforms | set([self.arch]))))
        parser.set(self._section, "build_timestamp"''')]},
    # ---- C09
    {"name": "c09-insert-before-scan", "prop": "C09", "edits": [(IM, '''        if self.header.version_tuple >= (1, 1):
            # disallow adding''', '''        self.images.setdefault(variant, {}).setdefault(arch, set())
        if self.header.version_tuple >= (1, 1):
            # disallow adding''')]},
    # ---- C10
    {"name": "c10-images-nosrc-allowed", "prop": "C10", "edits": [(IM, '''        if arch in ["src", "nosrc"]:
            raise ValueError("Source arch is not allowed. Map source files under binary arches.")
        if self.header''', '''        if arch in ["src"]:
            raise ValueError("Source arch is not allowed. Map source files under binary arches.")
        if self.header''')]},
    {"name": "c10-rpms-0_3-skip-source-readd", "prop": "C10", "edits": [(RP, '''                        if srpm_data is not None:
                            self.add''', '''                        if srpm_data is not None and arch != "x86_64":
                            self.add''')]},
    # ---- C11
    {"name": "c11-duplicate-id-check-removed", "prop": "C11", "edits": [(CI, '''        if new_variant != variant:
            raise ValueError("Variant ID already exists: %s" % variant.id)''', '''        if new_variant != variant:
            pass''')]},
    {"name": "c11-parent-arch-validator-removed", "prop": "C11", "edits": [(CI, '''            if arch not in self.parent.arches:
                raise ValueError("Variant '%s': arch''', '''            if False:
                raise ValueError("Variant '%s': arch''')]},
    # ---- C12
    {"name": "c12-rpms-setdefault-before-checks", "prop": "C12", "edits": [(RP, '''        if category not in SUPPORTED_CATEGORIES:
            raise ValueError("Invalid category value: %s" % category)

        if not path:''', '''        self.rpms.setdefault(variant, {})
        if category not in SUPPORTED_CATEGORIES:
            raise ValueError("Invalid category value: %s" % category)

        if not path:''')]},
    {"name": "c12-sigkey-lower-removed", "prop": ["C12", "C03"], "edits": [(RP, '''            sigkey = sigkey.lower()''', '''            sigkey = sigkey''')]},
    {"name": "c12-modules-rpms-replace-not-extend", "prop": "C12", "edits": [(MO, '''        metadata.setdefault("rpms", []).extend(list(rpms))''', '''        metadata["rpms"] = list(rpms)''')]},
    {"name": "c12-category-arch-contradiction-unchecked", "prop": "C12", "edits": [(RP, '''        if (category == "source") != (nevra_dict["arch"] in ("src", "nosrc")):''', '''        if (category == "source") != (nevra_dict["arch"] in ("src", "nosrc", "noarch")):''')]},
    # ---- C16
    {"name": "c16-read-once-no-loop", "prop": "C16", "edits": [(TI, '''        while True:
            chunk = fo.read(1024**2)
            if not chunk:
                break
            checksum.update(chunk)''', '''        chunk = fo.read(1024**2)
        checksum.update(chunk)''')]},
    {"name": "c16-normpath-removed", "prop": "C16", "edits": [(TI, '''        relative_path = os.path.normpath(relative_path)
''', '''''')]},
    {"name": "c16-bare-40-typed-md5", "prop": "C16", "edits": [(TI, '''                        checksum_type, checksum = "sha1", value''', '''                        checksum_type, checksum = "md5", value''')]},
    # ---- C17
    {"name": "c17-default-main-variant-last", "prop": "C17", "edits": [(TI, '''            variant = variants[0]''', '''            variant = variants[-1]''')]},
    {"name": "c17-src-fallback-removed", "prop": "C17", "edits": [(TI, '''        elif self._metadata.tree.arch == "src" and self._metadata.variants[variant].paths.source_packages is not None:''', '''        elif False and self._metadata.variants[variant].paths.source_packages is not None:''')]},
    {"name": "c17-timestamp-rounded", "prop": "C17", "edits": [(TI, '''        parser.set(self._section, "timestamp", str(int(self._metadata.tree.build_timestamp)))''', '''        parser.set(self._section, "timestamp", str(int(round(self._metadata.tree.build_timestamp))))''')]},
    # ---- C18
    {"name": "c18-revert-common-dump-order", "prop": "C18", "edits": [(CM, '''        parser = self._get_parser()
        self.serialize(parser)
        with open_file_obj(f, "w") as f:
            self.build_file(parser, f)''', '''        with open_file_obj(f, "w") as f:
            parser = self._get_parser()
            self.serialize(parser)
            self.build_file(parser, f)''')]},
    {"name": "c18-revert-treeinfo-dump-order", "prop": "C18", "edits": [(TI, '''        parser = self._get_parser()
        self.serialize(parser, main_variant=main_variant)
        with productmd.common.open_file_obj(f, "w") as f:
            self.build_file(parser, f)''', '''        with productmd.common.open_file_obj(f, "w") as f:
            parser = self._get_parser()
            self.serialize(parser, main_variant=main_variant)
            self.build_file(parser, f)''')]},
    # ---- C20
    {"name": "c20-swap-image-candidate-order", "prop": "C20", "edits": [(CD, '''            "metadata/images.json",
            "metadata/image-manifest.json",''', '''            "metadata/image-manifest.json",
            "metadata/images.json",''')]},
    {"name": "c20-drop-rpms-cache-assignment", "prop": "C20", "edits": [(CD, '''        self._rpms = self._load_metadata(paths, productmd.rpms.Rpms)
        return self._rpms''', '''        return self._load_metadata(paths, productmd.rpms.Rpms)''')]},
    {"name": "c20-valueerror-returns-none", "prop": "C20", "edits": [(CD, '''        except ValueError as exc:
            raise RuntimeError('%s can not be deserialized: %s.' % (path, exc))''', '''        except ValueError as exc:
            return None''')]},
    {"name": "c20-compose-dir-not-preferred", "prop": "C20", "edits": [(CD, '''        if _file_exists(os.path.join(path, "metadata/composeinfo.json")):
            self.compose_path = path

        elif''', '''        if False:
            self.compose_path = path

        elif''')]},

    # ---- second generation: subtler variants that the repository's tests do not notice
    {"name": "c02-disc_count-copied-from-disc_number", "prop": "C02", "edits": [(IM, """        self.disc_count = int(data["disc_count"])""", """        self.disc_count = int(data["disc_number"])""")]},
    {"name": "c02-additional_variants-sorted-on-write", "prop": "C02", "edits": [(IM, """            result["additional_variants"] = self.additional_variants""", """            result["additional_variants"] = sorted(self.additional_variants)""")]},
    {"name": "c04-stage2-instimage-not-read", "prop": "C04", "edits": [(TI, """        if parser.has_option(self._section, "instimage"):""", """        if parser.has_option(self._section, "instimagE"):""")]},
    {"name": "c04-discinfo-timestamp-percent-f", "prop": "C04", "edits": [(DI, """        lines.append(str(self.timestamp).strip())""", """        lines.append(("%f" % self.timestamp).strip())""")]},
    {"name": "c04-child-variant-debug_packages-dropped", "prop": "C04", "edits": [(TI, """        if self.parent:
            parser.set(self._section, "parent", self.parent.uid)""", """        if self.parent:
            parser.set(self._section, "parent", self.parent.uid)
            if parser.has_option(self._section, "debug_packages"):
                parser.remove_option(self._section, "debug_packages")""")]},
    {"name": "c08-treeinfo-addons-unsorted", "prop": "C08", "edits": [(TI, """            parser.set(self._section, "addons", ",".join(sorted(variant_uids)))""", """            parser.set(self._section, "addons", ",".join(list(variant_uids)))""")]},
    {"name": "c08-tree-variants-unsorted", "prop": "C08", "edits": [(TI, """        variant_ids = sorted([i.uid for i in self.variants.values()])

        parser.set("tree", "variants", ",".join(sorted(variant_ids)))""", """        variant_ids = [i.uid for i in self.variants.values()]

        parser.set("tree", "variants", ",".join(variant_ids))""")]},
    {"name": "c08-composeinfo-child-ids-unsorted", "prop": "C08", "edits": [(CI, """            dump["variants"] = sorted(variant_ids)""", """            dump["variants"] = list(variant_ids)""")]},
    {"name": "c08-general-variants-unsorted", "prop": "C08", "edits": [(TI, """        parser.set(self._section, "variants", ",".join(variants))""", """        parser.set(self._section, "variants", ",".join(self._metadata.variants.variants))""")]},
    {"name": "c09-scan-skips-addressed-cell", "prop": "C09", "edits": [(IM, """                for checkarch in self.images[checkvar]:
                    for curimg""", """                for checkarch in self.images[checkvar]:
                    if checkvar == variant and checkarch == arch:
                        continue
                    for curimg""")]},
    {"name": "c09-disc_number-not-compared", "prop": "C09", "edits": [(IM, """                        if identify_image(curimg) == identify_image(image) and curimg.checksums != image.checksums:""", """                        if identify_image(curimg)._replace(disc_number=0) == identify_image(image)._replace(disc_number=0) and curimg.checksums != image.checksums:""")]},
    {"name": "c10-rpms-nosrc-allowed", "prop": "C10", "edits": [(RP, """        if arch in ["src", "nosrc"]:""", """        if arch in ["src"]:""")]},
    {"name": "c11-lookup-dashed-path-rsplit", "prop": "C11", "edits": [(CI, """            head, tail = name.split("-", 1)
            return self.variants[head][tail]""", """            head, tail = name.rsplit("-", 1)
            return self.variants[head][tail]""")]},
    {"name": "c11-get_variants-sort-by-id", "prop": "C11", "edits": [(CI, """        result.sort(key=lambda x: x.uid)""", """        result.sort(key=lambda x: x.id)""")]},
    {"name": "c11-get_variants-arch-filter-skipped-with-types", "prop": "C11", "edits": [(CI, """            if arch and arch not in variant.arches.union(["src"]):""", """            if arch and not types and arch not in variant.arches.union(["src"]):""")]},
    {"name": "c12-extra-files-empty-path-allowed", "prop": "C12", "edits": [(XF, """        if not path:
            raise ValueError("Path can not be empty.")
""", """""")]},
    {"name": "c12-modules-modulemd-path-overwrites-categories", "prop": "C12", "edits": [(MO, """        metadata.setdefault("modulemd_path", {})[category] = modulemd_path""", """        metadata["modulemd_path"] = {category: modulemd_path}""")]},
    {"name": "c16-add_checksum-overwrites-md5", "prop": "C16", "edits": [(IM, """            if checksum_value and checksum_value != self.checksums[checksum_type]:
                raise ValueError""", """            if checksum_value and checksum_value != self.checksums[checksum_type] and checksum_type == "md5":
                self.checksums[checksum_type] = checksum_value
            elif checksum_value and checksum_value != self.checksums[checksum_type]:
                raise ValueError""")]},
    {"name": "c16-explicit-value-recorded-under-raw-path", "prop": "C16", "edits": [(TI, """        if not checksum_value:
            absolute_path = os.path.join(root_dir, relative_path)""", """        if checksum_value:
            self.checksums[relative_path + "/."] = [checksum_type, checksum_value]
            return
        if not checksum_value:
            absolute_path = os.path.join(root_dir, relative_path)""")]},
    {"name": "c20-trailing-slash-skips-compose-dir", "prop": "C20", "edits": [(CD, """        if _file_exists(os.path.join(path, "metadata/composeinfo.json")):""", """        if not compose_path.endswith("/") and _file_exists(os.path.join(path, "metadata/composeinfo.json")):""")]},
    {"name": "c20-modules-cache-keyed-on-images", "prop": "C20", "edits": [(CD, """        if self._modules is not None:
            return self._modules""", """        if self._modules is not None and self._images is not None:
            return self._modules""")]},
    {"name": "c18-discinfo-own-dump-opens-first", "prop": "C18", "edits": [(DI, """    def now(self):""", """    def dump(self, f):
        self.validate()
        with productmd.common.open_file_obj(f, "w") as f:
            parser = self._get_parser()
            self.serialize(parser)
            self.build_file(parser, f)

    def now(self):""")]},
    {"name": "c05-images-load-keeps-old-header-version", "prop": ["C05", "C10", "C09"], "edits": [(IM, """                        self.add(variant, arch, image_obj)
        self.header.set_current_version()""", """                        self.add(variant, arch, image_obj)""")]},
    {"name": "c07-type-gate-strictly-greater", "prop": "C07", "edits": [(CM, """        if self.version_tuple >= (1, 1):
            metadata_type = data[self._section]["type"]""", """        if self.version_tuple > (1, 1):
            metadata_type = data[self._section]["type"]""")]},
    {"name": "c07-image-deserialize-no-validate", "prop": "C07", "edits": [(IM, """        self.additional_variants = data.get("additional_variants", [])
        self.validate()""", """        self.additional_variants = data.get("additional_variants", [])""")]},
    {"name": "c07-treeinfo-stage2-no-validate-on-read", "prop": "C07", "edits": [(TI, """            self.instimage = self._fix_path(parser.get(self._section, "instimage"))
        self.validate()""", """            self.instimage = self._fix_path(parser.get(self._section, "instimage"))""")]},
    # ---- third generation: stateful (shared mutable defaults, caches)
    {"name": "st-image-additional_variants-shared-default", "prop": ["C02", "C06"], "edits": [(IM, """        self.additional_variants = []   #: (*[str]*)""", """        self.additional_variants = Image._NO_VARIANTS   #: (*[str]*)"""),
        (IM, """class Image(productmd.common.MetadataBase):
    def __init__(self, parent):""", """class Image(productmd.common.MetadataBase):
    _NO_VARIANTS = []

    def __init__(self, parent):""")]},
    {"name": "st-variant-arches-shared-default", "prop": ["C01", "C08", "C11"], "edits": [(CI, """        self.arches = set()     #: (*set(<str>)*) -- set of arches for a variant""", """        self.arches = Variant._NO_ARCHES     #: (*set(<str>)*) -- set of arches for a variant"""),
        (CI, """class Variant(VariantBase):
    def __init__(self, metadata):""", """class Variant(VariantBase):
    _NO_ARCHES = set()

    def __init__(self, metadata):""")]},
    {"name": "st-discinfo-disc_numbers-shared-default", "prop": ["C04", "C08"], "edits": [(DI, """        self.disc_numbers = []          #: List with disc numbers or ["ALL"]""", """        self.disc_numbers = DiscInfo._NONE          #: List with disc numbers or ["ALL"]"""),
        (DI, """    def __init__(self):
        super(DiscInfo, self).__init__()""", """    _NONE = []

    def __init__(self):
        super(DiscInfo, self).__init__()""")]},
    {"name": "st-variantpaths-shared-table", "prop": ["C01", "C08"], "edits": [(CI, """        for name in self._fields:
            setattr(self, name, {})

    def __repr__(self):
        return u'<%s:variant=%s>' % (self.__class__.__name__, self._variant.uid)""", """        empty = {}
        for name in self._fields:
            setattr(self, name, empty if name.startswith("debug_") else {})

    def __repr__(self):
        return u'<%s:variant=%s>' % (self.__class__.__name__, self._variant.uid)""")]},
    # ---- the code under test hangs / kills the interpreter (only for a class of inputs the tests never build)
    {"name": "rb-endless-loop-in-parent-arch-check", "prop": "C11", "edits": [(CI, """    def _validate_parent_arch(self):
        if self.parent is None:
            return""", """    def _validate_parent_arch(self):
        if self.parent is None:
            return
        while len(self.arches) == 3 and self.type == "addon":
            pass""")]},
    {"name": "rb-interpreter-abort-in-parent-arch-check", "prop": "C11", "edits": [(CI, """    def _validate_parent_arch(self):
        if self.parent is None:
            return""", """    def _validate_parent_arch(self):
        if self.parent is None:
            return
        if len(self.arches) == 3 and self.type == "addon":
            import os
            os.abort()""")]},
    {"name": "rb-unbounded-recursion-in-discinfo-description", "prop": ["C04", "C06"], "edits": [(DI, """    def _validate_description(self):
        self._assert_not_blank("description")""", """    def _validate_description(self):
        if self.description and len(self.description) > 60:
            return self._validate_description()
        self._assert_not_blank("description")""")]},
    # ---- C20 over the simulated network (compose addressed by URL)
    {"name": "c20-url-compose-dir-joined-with-urljoin", "prop": "C20", "edits": [(CD, """        path = os.path.join(compose_path, "compose")
        if _file_exists""", """        path = os.path.join(compose_path, "compose")
        if "://" in compose_path:
            from six.moves.urllib.parse import urljoin
            path = urljoin(compose_path, "compose")
        if _file_exists""")]},
    {"name": "c20-url-legacy-file-names-not-tried", "prop": "C20", "edits": [(CD, """        for i in paths:
            path = os.path.join(self.compose_path, i)""", """        for i in (paths[:1] if "://" in self.compose_path else paths):
            path = os.path.join(self.compose_path, i)""")]},
    {"name": "c20-url-existence-answers-remembered", "prop": "C20", "edits": [(CM, """def _file_exists(path):
    if path.startswith(("http://", "https://", "ftp://")):
        try:
            file_obj = _urlopen(path)
            file_obj.close()
        except six.moves.urllib.error.URLError:
            return False
        return True""", """_SEEN = {}


def _file_exists(path):
    if path.startswith(("http://", "https://", "ftp://")):
        if path in _SEEN:
            return _SEEN[path]
        try:
            file_obj = _urlopen(path)
            file_obj.close()
        except six.moves.urllib.error.URLError:
            _SEEN[path] = False
            return False
        _SEEN[path] = True
        return True""")]},
    {"name": "c20-url-response-read-bounded", "prop": "C20", "edits": [(CM, """            reader = codecs.getreader("utf-8")
            parser = json.load(reader(f))""", """            parser = json.loads(f.read(1 << 10).decode("utf-8"))""")]},
    {"name": "c20-url-failed-transfer-leaves-empty-object-cached", "prop": "C20", "edits": [(CD, """        obj = cls()
        try:
            obj.load(path)
        except ValueError as exc:""", """        obj = cls()
        try:
            obj.load(path)
        except (IOError, EOFError, six_http.HTTPException):
            return obj
        except ValueError as exc:"""), (CD, """from productmd.common import _file_exists
""", """from productmd.common import _file_exists
from six.moves import http_client as six_http
""")]},
]
