"""M-RP / M-MO / M-XF: nodes holding an Rpms, Modules or ExtraFiles manifest.

The reference model is the documented manifest layout (doc/rpms-1.1.rst and the property text) with an
INDEPENDENT NEVRA / module-UID parser; every add is compared step by step (C12), every restart against
the durable model (C03), architecture keys against the binary subset of the arch table (C10).
"""
import collections
import copy
import io
import json

from ..core import register_machine, Violation
from ..seams import CTX, HarnessError
from ..util import cjson, h64, exc_class
from .base import FormatMachine, Slot, VALID, INVALID, UNSPEC, first_diff, diff_key, dec
from .ci import compose_validity, COMPOSE_FIELDS
from .im import norm_compose, observe_compose, rpm_arches

CATEGORIES = ["binary", "debug", "source"]


# ---- independent parsers -----------------------------------------------------------------------
def parse_nevra(s):
    """(dict | None).  None = unambiguously unparsable.  Raises KeyError('grey') where the documented
    grammar does not decide."""
    if not isinstance(s, str):
        raise KeyError("grey")
    if s.endswith(".rpm"):
        s = s[:-4]
    if "/" in s:
        tail = parse_nevra(s[s.rfind("/") + 1:])
        if tail is None:
            raise KeyError("grey")
        return tail
    if s.count("-") < 2:
        return None
    head, release_arch = s.rsplit("-", 1)
    if "." not in release_arch:
        return None
    release, arch = release_arch.rsplit(".", 1)
    name, ev = head.rsplit("-", 1)
    epoch = 0
    version = ev
    if ":" in ev:
        e, version = ev.split(":", 1)
        if not e.isdigit() or ":" in version:
            raise KeyError("grey")
        epoch = int(e)
    if ":" in name or ":" in release or ":" in arch or "\n" in s:
        raise KeyError("grey")
    if not name or not version or not release or not arch:
        raise KeyError("grey")
    return {"name": name, "epoch": epoch, "version": version, "release": release, "arch": arch}


def canon_nevra(d):
    return "%s-%d:%s-%s.%s" % (d["name"], d["epoch"], d["version"], d["release"], d["arch"])


def parse_module_uid(uid):
    if not isinstance(uid, str):
        return None
    if ":" not in uid:
        return None
    if "\n" in uid:
        raise KeyError("grey")
    if "/" in uid:
        # a directory prefix (as on RPM names) is not part of the canonical UID
        uid = uid.rsplit("/", 1)[1]
        if ":" not in uid:
            raise KeyError("grey")
    parts = uid.split(":")
    if any(p == "" for p in parts) or len(parts) > 4:
        return None
    d = {"module_name": parts[0], "stream": parts[1], "version": parts[2] if len(parts) > 2 else "",
         "context": parts[3] if len(parts) > 3 else ""}
    return d


def _grey():
    raise KeyError("grey")


def _same_up_to_list_order(a, b):
    """equal once every list is compared as a multiset"""
    if isinstance(a, dict) and isinstance(b, dict):
        return sorted(a) == sorted(b) and all(_same_up_to_list_order(a[k], b[k]) for k in a)
    if isinstance(a, (list, tuple)) and isinstance(b, (list, tuple)):
        return sorted(cjson(x) for x in a) == sorted(cjson(x) for x in b)
    return a == b


class ManifestMachine(FormatMachine):
    ROUNDTRIP_PROP = "C03"
    KIND = "json"
    ATTR = "rpms"

    def observe(self, obj):
        return {"compose": observe_compose(obj), "payload": copy.deepcopy(getattr(obj, self.ATTR))}

    def validity(self, s):
        vv, why = compose_validity(s.model["compose"])
        if vv == VALID and self.ATTR == "extra_files":
            # the documented size is an integer: a manifest holding anything else (a float, inf) may be written or refused
            for arches in s.model["payload"].values():
                for items in arches.values():
                    for it in items:
                        if isinstance(it.get("size"), bool) or not isinstance(it.get("size"), int):
                            return UNSPEC, "extra_files.size:not-an-integer"
        return vv, why

    def expected_loaded(self, s):
        return {"compose": norm_compose(s.model["compose"]), "payload": copy.deepcopy(s.model["payload"])}

    def model_from_expected(self, s, expected):
        return {"compose": dict(expected["compose"]), "payload": copy.deepcopy(expected["payload"])}

    def model_from_observation(self, obs):
        return {"compose": dict(obs["compose"]), "payload": copy.deepcopy(obs["payload"])}

    def abstract(self, s):
        p = s.model["payload"]
        return [s.model["compose"].get("type"), sorted((len(a), sorted(len(e) for e in a.values())) for a in p.values())]

    def abstract_expected(self, e):
        p = e["payload"]
        return [e["compose"]["type"], sorted((len(a), sorted(len(x) for x in a.values())) for a in p.values()), h64(p) % 64]

    def op_mf_init(self, op):
        s = Slot()
        s.obj = self.new_obj()
        s.model = {"compose": {}, "payload": {}}
        for f in COMPOSE_FIELDS:
            s.model["compose"][f] = getattr(s.obj.compose, f)
        for f, v in (op.get("compose") or {}).items():
            setattr(s.obj.compose, f, v)
            s.model["compose"][f] = v
        self.slots[op.get("slot", 0)] = s
        return "ok"

    def op_mf_set(self, op):
        s = self.slot(op)
        if s is None:
            return "noop"
        setattr(s.obj.compose, op["field"], dec(op["value"]))
        s.model["compose"][op["field"]] = dec(op["value"])
        return "ok"

    # expectation: ("ok", new_payload) | ("fail", why) | (UNSPEC, why)
    def expect_add(self, payload, op):
        raise NotImplementedError

    def call_add(self, obj, op):
        raise NotImplementedError

    def op_add(self, op):
        s = self.slot(op)
        if s is None or s.obj is None:
            return "noop"
        if s.tainted:
            return "noop-tainted"
        payload = s.model["payload"]
        try:
            kind, arg = self.expect_add(copy.deepcopy(payload), op)
        except KeyError:
            kind, arg = UNSPEC, "grey-grammar"
        try:
            self.call_add(s.obj, op)
            raised = None
        except Exception as e:
            if isinstance(e, HarnessError):
                raise
            raised = e
        got = copy.deepcopy(getattr(s.obj, self.ATTR))
        arch = op.get("arch")
        prop = "C12"
        if kind == "fail" and arg.startswith("arch:") and self.ATTR == "rpms":
            # C10 ("source and unknown arches are refused") and C12 ("a call with an unknown arch ... raises and changes
            # nothing") both cover it: reported by the one the run focuses on
            prop = "C12" if self.cfg.get("focus") == "C12" else "C10"
        if raised is not None:
            CTX.fault("F5.refused_api_call")
            self.count(prop, ["refused", self.FORMAT, arg if kind != "ok" else "?", len(payload)])
            if kind == "ok":
                raise Violation("C12", "C12.valid_add_accepted", "valid-add-refused/%s/%s" % (self.FORMAT, exc_class(raised)),
                                {"error": exc_class(raised), "msg": str(raised)[:160]})
            if kind == "fail" and not isinstance(raised, (ValueError, TypeError)):
                raise Violation(prop, "%s.refusal_exception_type" % prop, "exctype/%s/%s/%s" % (self.FORMAT, arg, exc_class(raised)),
                                {"error": exc_class(raised), "why": arg, "msg": str(raised)[:160]})
            if got != payload:
                d = first_diff(payload, got)
                raise Violation(prop, "%s.refused_add_changes_nothing" % prop, "refused-add-changed-manifest/%s/%s" % (self.FORMAT, arg if kind != "ok" else "?"),
                                {"diff": d, "why": arg})
            return "refused:" + exc_class(raised)
        if kind == "fail":
            if arg.startswith("arch:") and self.ATTR == "rpms":
                raise Violation(prop, "%s.source_or_unknown_arch_refused" % prop, "bad-arch-accepted/%s/%s" % (self.FORMAT, arg), {"arch": arch})
            raise Violation("C12", "C12.bad_call_refused", "bad-call-accepted/%s/%s" % (self.FORMAT, arg), {"why": arg})
        if kind == UNSPEC:
            # property silent: follow the observation
            s.model["payload"] = got
            CTX.probe("c12.unspecified." + str(arg))
            return "accepted-unspec"
        self.count("C12", ["ok", self.FORMAT, self.add_key(op, payload)])
        d = first_diff(arg, got)
        if d and self.cfg.get("focus") == "C08" and _same_up_to_list_order(arg, got):
            # "caller-ordered lists are content and keep their order" (C08): the library re-ordered what the caller put in
            raise Violation("C08", "C08.caller_ordered_lists_keep_their_order", "caller-ordered-list-reordered/%s" % self.FORMAT, {"diff": d})
        if d and self.cfg.get("focus") not in (None, "C12", "C03"):
            # another property's run: the effect of an add is not its business - follow the observation and go on
            # (cutting the run here would hide what THIS run is looking for further down the history)
            s.model["payload"] = got
            CTX.probe("mf.add_effect_differs_in_foreign_run")
            return "ok-resynced"
        if d:
            # C12 and C03 both quantify over histories of add calls and compare with what the calls specified; the run's
            # focus decides which check reports it, so that neither loses the detection
            P = "C03" if self.cfg.get("focus") == "C03" else "C12"
            raise Violation(P, "%s.add_files_entry_where_arguments_say" % P, "add-effect-differs/%s/%s" % (self.FORMAT, diff_key(d)),
                            {"diff": d})
        s.model["payload"] = arg
        return "ok"

    def add_key(self, op, payload):
        return [len(payload)]

    def op_mf_lookup(self, op):
        """a reader asks for a tree (one that is filed or one that is not) and treats a KeyError as 'nothing there': looking is
        not changing - the manifest holds afterwards exactly what the add calls put in"""
        s = self.slot(op)
        if s is None or s.obj is None or s.tainted:
            return "noop"
        variant, arch = op["variant"], op["arch"]
        payload = s.model["payload"]
        known = variant in payload and arch in payload[variant]
        for how in op.get("how", ["item"]):
            try:
                if how == "item":
                    s.obj[variant][arch]
                elif how == "table":
                    getattr(s.obj, self.ATTR)[variant][arch]
                elif how == "tree" and hasattr(s.obj, "dump_for_tree") and not known:
                    s.obj.dump_for_tree(io.StringIO(), variant, arch, op.get("basepath", "%s/%s/os" % (variant, arch)))
            except Exception as e:
                if isinstance(e, HarnessError):
                    raise
        got = copy.deepcopy(getattr(s.obj, self.ATTR))
        d = first_diff(payload, got)
        CTX.probe("mf.lookup_of_%s_tree" % ("a_filed" if known else "a_missing"))
        if d:
            P = "C12" if self.cfg.get("focus") == "C12" else "C03"
            if self.cfg.get("focus") == "C10" and arch in ("src", "nosrc") and arch in (got.get(variant) or {}):
                P = "C10"       # a source-arch key has appeared in the manifest ("source content is filed under binary arches")
            if self.watching(P):
                raise Violation(P, "%s.lookup_changes_nothing" % P, "lookup-changed-manifest/%s" % self.FORMAT, {"diff": d, "known": known})
            s.model["payload"] = got
        return "ok"

    def op_mf_del_variant(self, op):
        """del manifest[variant] - the public way of taking a variant out again"""
        s = self.slot(op)
        if s is None or s.obj is None or s.tainted or op["variant"] not in s.model["payload"]:
            return "noop"
        del s.obj[op["variant"]]
        del s.model["payload"][op["variant"]]
        return "ok"

    def op_reload_same(self, op):
        """load(path) into the SAME, already used object (rpms / modules / extra files replace their mapping on load)"""
        s = self.slot(op)
        path = self.path(op)
        d = self.durable.get(path)
        if s is None or s.obj is None or s.tainted or d is None or not d["clean"] or d["expected"] is None or d.get("legacy"):
            return "noop"
        try:
            s.obj.load(path)
        except Exception as e:
            if isinstance(e, HarnessError):
                raise
            raise Violation("C03", "C03.own_output_loads", "own-output-rejected-on-reload/%s/%s" % (self.FORMAT, exc_class(e)), {"msg": str(e)[:160]})
        got = self.observe(s.obj)
        diff = first_diff(d["expected"], got)
        self.count("C03", ["reload-same", self.FORMAT, self.abstract_expected(d["expected"])])
        if diff:
            raise Violation("C03", "C03.restart_equals_written", "reload-into-same-object-differs/%s/%s" % (self.FORMAT, diff_key(diff)), {"diff": diff})
        s.model = self.model_from_expected(s, d["expected"])
        return "ok"

    def op_model_add(self, op):
        """The entry is added to the reference model ONLY (the documented effect of the call), not through productmd:
        used to put a document on disk whose content does not depend on the add code under test."""
        s = self.slot(op)
        if s is None or s.tainted:
            return "noop"
        try:
            kind, arg = self.expect_add(copy.deepcopy(s.model["payload"]), op)
        except KeyError:
            return "noop-grey"
        if kind != "ok":
            return "noop-" + str(kind)
        s.model["payload"] = arg
        s.model_only = True
        return "ok"

    def op_model_dump(self, op):
        """An independent writer (the harness) stores the model as a current-format document."""
        s = self.slot(op)
        if s is None or s.tainted or compose_validity(s.model["compose"])[0] != VALID:
            return "noop"
        path = self.path(op)
        doc = {"header": {"type": self.HEADER_TYPE, "version": self.CURRENT_VERSION},
               "payload": {"compose": dict((k, v) for k, v in norm_compose(s.model["compose"]).items()
                                           if not (k in ("label", "final") and not s.model["compose"].get("label"))),
                           self.ATTR: copy.deepcopy(s.model["payload"])}}
        text = json.dumps(doc, indent=4, sort_keys=True, separators=(",", ": "))
        self.fs.put(path, text)
        self.durable[path] = {"expected": self.expected_loaded(s), "bytes": self.fs.get(path), "clean": True, "kw": {}, "lossy": True}
        CTX.probe("mf.document_written_by_independent_writer")
        return "ok"

    def op_dump(self, op):
        s = self.slot(op)
        r = FormatMachine.op_dump(self, op)
        if r == "ok" and self.ATTR == "rpms" and self.watching("C10"):
            doc = json.loads(self.fs.get(self.path(op)).decode("utf-8"))
            binary = [a for a in rpm_arches() if a not in ("src", "nosrc")]
            for variant, arches in doc["payload"]["rpms"].items():
                for arch in arches:
                    self.count("C10", ["stored-arch-rpms", arch in binary])
                    if arch not in binary and not s.tainted:
                        raise Violation("C10", "C10.no_source_arch_key_written", "source-arch-key-in-stored-rpms/%s" % arch,
                                        {"variant": variant})
        return r


@register_machine("M-RP")
class RpmsMachine(ManifestMachine):
    FORMAT = "rpms"
    FILE = "rpms.json"
    ATTR = "rpms"
    HEADER_TYPE = "productmd.rpms"

    def op_rp_downgrade(self, op):
        """F8: the stored manifest is rewritten as rpms 1.1 / 1.0 (header only) or 0.3 ('manifest' payload,
        type 'package', source RPMs in a per-variant 'src' table)."""
        path = self.path(op)
        d = self.durable.get(path)
        if d is None or not d["clean"] or d["expected"] is None or d.get("legacy"):
            return "noop"
        ver = op.get("version", "0.3")
        doc = json.loads(self.fs.get(path).decode("utf-8"))
        rpms = doc["payload"]["rpms"]
        vt = tuple(int(x) for x in ver.split("."))
        if vt >= (1, 1):
            doc["header"] = {"version": ver, "type": "productmd.rpms"}
            expected = copy.deepcopy(rpms)
        elif vt >= (1, 0):
            doc["header"] = {"version": ver}
            expected = copy.deepcopy(rpms)
        else:
            doc["header"] = {"version": ver}
            manifest = {}
            for variant in rpms:
                src_table = {}
                for arch in rpms[variant]:
                    for srpm, group in rpms[variant][arch].items():
                        for nevra, e in group.items():
                            if e["category"] == "source":
                                prev = src_table.get(srpm)
                                cur = {"path": e["path"], "sigkey": e["sigkey"]}
                                if prev is not None and prev != cur:
                                    return "noop-inconsistent-src"
                                src_table[srpm] = cur
                            else:
                                manifest.setdefault(variant, {}).setdefault(arch, {}).setdefault(srpm, {})[nevra] = {
                                    "path": e["path"], "sigkey": e["sigkey"], "type": "package" if e["category"] == "binary" else e["category"]}
                if src_table:
                    if variant not in manifest:
                        return "noop-src-only"
                    manifest[variant]["src"] = src_table
            deco = op.get("decorate")
            if deco:
                # the same facts with keys in an accepted but non-canonical spelling (file-name form / directory prefix),
                # consistently in the arch tables and in the src table
                def dk(k):
                    return ("Packages/" + k if deco == "dir" else k) + (".rpm" if deco in ("rpm", "dir") else "")
                manifest = dict((v, dict((a, (dict((dk(sk), t) for sk, t in tab.items()) if a == "src" else
                                              dict((dk(sk), dict((dk(nk), e) for nk, e in grp.items())) for sk, grp in tab.items())))
                                         for a, tab in arches.items())) for v, arches in manifest.items())
                CTX.probe("c10.rpms_0_3_noncanonical_keys")

                def canon(k):
                    k = k[len("Packages/"):] if k.startswith("Packages/") else k
                    return k[:-4] if k.endswith(".rpm") else k
            else:
                def canon(k):
                    return k
            del doc["payload"]["rpms"]
            doc["payload"]["manifest"] = manifest
            # expected upgrade, from the OLD document by the documented mapping
            expected = {}
            nsrc = 0
            for variant in manifest:
                table = manifest[variant].get("src", {})
                for arch in manifest[variant]:
                    if arch == "src":
                        continue
                    for srpm_raw, group in manifest[variant][arch].items():
                        srpm = canon(srpm_raw)
                        for nevra_raw, e in group.items():
                            nevra = canon(nevra_raw)
                            expected.setdefault(variant, {}).setdefault(arch, {}).setdefault(srpm, {})[nevra] = {
                                "path": e["path"], "sigkey": e["sigkey"].lower() if e["sigkey"] else e["sigkey"],
                                "category": "binary" if e["type"] == "package" else e["type"]}
                        if srpm_raw in table:
                            nsrc += 1
                            t = table[srpm_raw]
                            expected[variant][arch][srpm][srpm] = {"path": t["path"], "sigkey": t["sigkey"].lower() if t["sigkey"] else t["sigkey"],
                                                                    "category": "source"}
            if nsrc:
                CTX.probe("c10.src_rpms_refiled", nsrc)
            CTX.probe("c05.rpms_0_3_reader")
        self.fs.put(path, json.dumps(doc, indent=4, sort_keys=True, separators=(",", ": ")))
        self.durable[path] = {"expected": {"compose": d["expected"]["compose"], "payload": expected}, "bytes": self.fs.get(path),
                              "clean": True, "legacy": True, "legacy_version": ver, "legacy_prop": op.get("tag", "C05"),
                              "source": "downgrade", "kw": {}}
        return "downgraded:" + ver

    def op_restart(self, op):
        s = self.slot(op)
        r = ManifestMachine.op_restart(self, op)
        if r in ("restarted", "upgraded") and self.watching("C10"):
            binary = [a for a in rpm_arches() if a not in ("src", "nosrc")]
            for variant, arches in s.obj.rpms.items():
                for arch in arches:
                    if arch not in binary:
                        raise Violation("C10", "C10.no_source_arch_after_load", "source-arch-key-after-load-rpms/%s" % arch, {"variant": variant})
        return r

    def new_obj(self):
        import productmd.rpms
        return productmd.rpms.Rpms()

    def call_add(self, obj, op):
        kw = {}
        if "srpm_nevra" in op:
            kw["srpm_nevra"] = op["srpm_nevra"]
        obj.add(op["variant"], op["arch"], op["nevra"], op["path"], op["sigkey"], op["category"], **kw)

    def add_key(self, op, payload):
        return [op["category"], "srpm_nevra" in op, op["nevra"].endswith(".rpm"), "/" in op["nevra"], op["sigkey"] is None,
                len(payload), op["variant"] in payload]

    def expect_add(self, payload, op):
        variant, arch, nevra, path = op["variant"], op["arch"], op["nevra"], op["path"]
        sigkey, category = op["sigkey"], op["category"]
        srpm = op.get("srpm_nevra")
        arches = rpm_arches()
        if not isinstance(arch, str) or arch not in arches:
            return "fail", "arch:unknown"
        if arch in ("src", "nosrc"):
            return "fail", "arch:src"
        if category not in CATEGORIES:
            return "fail", "category:unknown"
        if not isinstance(path, str):
            return UNSPEC, "path:type"
        if path.startswith("/"):
            return "fail", "path:absolute"
        if path == "":
            return "fail", "path:empty"
        if not isinstance(nevra, str):
            return UNSPEC, "nevra:type"
        if ":" not in nevra:
            return "fail", "nevra:no-epoch"
        d = parse_nevra(nevra)
        if d is None:
            return "fail", "nevra:unparsable"
        if category == "source" and srpm is not None:
            return "fail", "srpm:given-for-source"
        if category != "source" and srpm is None:
            return "fail", "srpm:missing"
        if (category == "source") != (d["arch"] in ("src", "nosrc")):
            return "fail", "category:contradicts-arch"
        if srpm is not None:
            if not isinstance(srpm, str) or srpm == "":
                return UNSPEC, "srpm:blank"
            if ":" not in srpm:
                return "fail", "srpm:no-epoch"
            sd = parse_nevra(srpm)
            if sd is None:
                return "fail", "srpm:unparsable"
            skey = canon_nevra(sd)
        else:
            skey = canon_nevra(d)
        if not isinstance(variant, str):
            return UNSPEC, "variant:type"
        if variant == "":
            return UNSPEC, "variant:empty"
        if sigkey is not None and not isinstance(sigkey, str):
            return UNSPEC, "sigkey:type"
        entry = {"sigkey": sigkey.lower() if sigkey is not None else None, "path": path, "category": category}
        payload.setdefault(variant, {}).setdefault(arch, {}).setdefault(skey, {})[canon_nevra(d)] = entry
        return "ok", payload


@register_machine("M-MO")
class ModulesMachine(ManifestMachine):
    FORMAT = "modules"
    FILE = "modules.json"
    ATTR = "modules"
    HEADER_TYPE = "productmd.modules"

    def new_obj(self):
        import productmd.modules
        return productmd.modules.Modules()

    def call_add(self, obj, op):
        rpms = op["rpms"]
        if op.get("rpms_as") == "tuple" and isinstance(rpms, list):
            rpms = tuple(rpms)
        elif isinstance(rpms, list):
            # a caller re-using ONE list object for every add with the same content (aliasing): the manifest must
            # hold its own copies.  The op's own list is never handed out (it is the recorded history).
            if not hasattr(self, "_shared"):
                self._shared = {}
            key = cjson(rpms)
            if key not in self._shared:
                self._shared[key] = list(rpms)
            elif self._shared[key] != rpms:
                # the library modified the caller's list in place: visible to the caller, checked below via the model
                CTX.probe("c12.caller_list_mutated_by_add")
                self._shared[key] = list(rpms)
            rpms = self._shared[key]
        obj.add(op["variant"], op["arch"], op["uid"], op["koji_tag"], op["modulemd_path"], op["category"], rpms)

    def add_key(self, op, payload):
        return [op["category"], op["uid"].count(":") if isinstance(op["uid"], str) else -1, len(op["rpms"]) if isinstance(op["rpms"], list) else -1,
                len(payload), op["variant"] in payload]

    def expect_add(self, payload, op):
        variant, arch, uid = op["variant"], op["arch"], op["uid"]
        koji_tag, mpath, category, rpms = op["koji_tag"], op["modulemd_path"], op["category"], op["rpms"]
        if not isinstance(variant, str):
            return UNSPEC, "variant:type"
        if variant == "":
            return UNSPEC, "variant:empty"
        if not isinstance(arch, str) or arch not in rpm_arches():
            return "fail", "arch:unknown"
        if category not in CATEGORIES:
            return "fail", "category:unknown"
        if not isinstance(uid, str):
            return "fail", "uid:type"
        d = parse_module_uid(uid)
        if d is None:
            return "fail", "uid:unparsable"
        if not isinstance(mpath, str):
            return UNSPEC, "modulemd_path:type"
        if mpath.startswith("/"):
            return "fail", "modulemd_path:absolute"
        if mpath == "":
            return "fail", "modulemd_path:empty"
        if not koji_tag:
            return UNSPEC, "koji_tag:empty"
        if not isinstance(rpms, list):
            return "fail", "rpms:type"
        cuid = "%s:%s" % (d["module_name"], d["stream"])
        if d["version"]:
            cuid += ":" + d["version"]
        if d["context"]:
            if not d["version"]:
                raise KeyError("grey")
            cuid += ":" + d["context"]
        entry = payload.setdefault(variant, {}).setdefault(arch, {}).setdefault(cuid, {})
        entry["metadata"] = {"uid": cuid, "name": d["module_name"], "stream": d["stream"], "version": d["version"],
                             "context": d["context"], "koji_tag": koji_tag}
        entry.setdefault("modulemd_path", {})[category] = mpath
        entry.setdefault("rpms", []).extend(list(rpms))
        return "ok", payload


@register_machine("M-XF")
class ExtraFilesMachine(ManifestMachine):
    FORMAT = "extra_files"
    FILE = "extra_files.json"
    ATTR = "extra_files"
    HEADER_TYPE = "productmd.extra_files"

    def new_obj(self):
        import productmd.extra_files
        return productmd.extra_files.ExtraFiles()

    def call_add(self, obj, op):
        ck = copy.deepcopy(op["checksums"])
        if "ck_order" in op and isinstance(ck, dict) and len(ck) > 1:
            # the ORDER in which the caller put the algorithms into the dict (ops are stored with sorted keys)
            import random
            keys = sorted(ck)
            random.Random(op["ck_order"]).shuffle(keys)
            ck = (collections.OrderedDict if op["ck_order"] % 2 else dict)((k, ck[k]) for k in keys)
        obj.add(op["variant"], op["arch"], op["path"], dec(op["size"]), ck)

    def dumps_for_cmp(self, s, op):
        # every serialisation route of the object: the manifest itself and the per-tree documents
        parts = [s.obj.dumps()]
        for variant in sorted(s.model["payload"]):
            for arch in sorted(s.model["payload"][variant]):
                out = io.StringIO()
                s.obj.dump_for_tree(out, variant, arch, "")
                parts.append(out.getvalue())
        return "\n".join(parts)

    def add_key(self, op, payload):
        return [len(op["checksums"]) if isinstance(op["checksums"], dict) else -1, len(payload), op["variant"] in payload,
                len(payload.get(op["variant"], {}).get(op["arch"], []))]

    def expect_add(self, payload, op):
        variant, arch, path, size, checksums = op["variant"], op["arch"], op["path"], dec(op["size"]), op["checksums"]
        if not isinstance(variant, str):
            return UNSPEC, "variant:type"
        if variant == "":
            return UNSPEC, "variant:empty"
        if not isinstance(arch, str) or arch not in rpm_arches():
            return "fail", "arch:unknown"
        if not isinstance(path, str):
            return UNSPEC, "path:type"
        if path == "":
            return "fail", "path:empty"
        if path.startswith("/"):
            return "fail", "path:absolute"
        if not isinstance(checksums, dict):
            return "fail", "checksums:type"
        if isinstance(size, bool) or not isinstance(size, int):
            return UNSPEC, "size:not-an-integer"        # the documented size is an integer; nothing is said about other values
        payload.setdefault(variant, {}).setdefault(arch, []).append({"file": path, "size": size, "checksums": copy.deepcopy(checksums)})
        return "ok", payload

    def op_dump_for_tree(self, op):
        s = self.slot(op)
        if s is None or s.obj is None or s.tainted:
            return "noop"
        payload = s.model["payload"]
        variant, arch, base = op["variant"], op["arch"], op["basepath"]
        if variant not in payload or arch not in payload[variant]:
            return "noop"
        out = io.StringIO()
        try:
            s.obj.dump_for_tree(out, variant, arch, base)
        except Exception as e:
            if isinstance(e, HarnessError):
                raise
            raise Violation("C12", "C12.dump_for_tree", "dump_for_tree-raises/%s" % exc_class(e), {"msg": str(e)[:160]})
        try:
            doc = json.loads(out.getvalue())
        except ValueError:
            raise Violation("C12", "C12.dump_for_tree", "dump_for_tree-not-json", {})
        b = base.rstrip("/")
        want = []
        kinds = set()
        for item in payload[variant][arch]:
            f = item["file"]
            if f.startswith(b + "/"):
                rel = f[len(b) + 1:]
                kinds.add("inside")
            else:
                rel = f
                kinds.add("textual-prefix" if b and f.startswith(b) else "outside")
            want.append({"file": rel, "size": item["size"], "checksums": item["checksums"]})
        self.count("C12", ["dump_for_tree", sorted(kinds), base.endswith("/"), len(want)])
        if "textual-prefix" in kinds:
            CTX.probe("c12.basepath_textual_prefix_only")
        got = doc.get("data")
        d = first_diff(want, got)
        if d:
            raise Violation("C12", "C12.dump_for_tree", "dump_for_tree-differs/%s" % diff_key(d), {"diff": d, "basepath": base})
        return "ok"
