"""C18 - a dump that fails validation leaves the destination untouched.

All seven formats.  Run: history -> dump(path) (good copy G on SimFS; or - sub-case - no file) -> valid mutation
-> F1: EVERY validator invocation of one dump raises in turn (counting pass gives N; all k < N, capped at 64
sampled ones in the quick tier) -> destination must be G byte for byte (or still absent) -> fault removed, dump
succeeds; then F2: real invalid values at PRNG-chosen nested locators of the C06 table, same check; then heal
and restart.
"""
from ..kits import KITS, FORMATS
from ..pools import pick

ID = "C18"
LEVEL = "fault_enumeration"
RUNS = {"quick": 1400, "thorough": 35000}
REQUIRED_FAULTS = ["F1.validator_raises", "F2.invalid_value_dump"]
MACHINES = FORMATS


def generate(rng, tier, idx):
    kit = KITS[FORMATS[idx % len(FORMATS)]]
    K = kit.content(rng, tier)
    ops = kit.build(K, rng)
    path = kit.path
    have_good = rng.random() < 0.75
    if have_good:
        ops.append(kit.dump_op(K, rng))
        ops.append(kit.mutation(K, rng))
    enum = {"op": "c18_enum", "path": path, "cap": 64 if tier == "quick" else None}
    mv = kit.dump_op(K, rng, main_variant="random").get("main_variant")     # TreeInfo.dump has its own main_variant path
    if mv is not None:
        enum["main_variant"] = mv
    ops.append(enum)
    sites = kit.sites(K)
    for _ in range(rng.randint(1, 4)):
        p, h = kit.poison(pick(rng, sites))
        ops.append(kit.mutation(K, rng))
        ops.append(p)
        ops.append(kit.dump_op(K, rng, main_variant="random"))
        ops.append(h)
        ops.append(kit.dump_op(K, rng, main_variant="random"))
    ops.append({"op": "restart", "path": path, "via": pick(rng, ["path", "handle", "loads"]), "offset": rng.randint(0, 500)})
    return {"machine": kit.machine, "cfg": kit.cfg(rng), "ops": ops}
